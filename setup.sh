#!/bin/sh
# MANIFEST.setup_cmd: offline, idempotent. Ensures hypothesis is importable by /venv/bin/python
# (the interpreter that has the repository and its dependencies installed).
cd "$(dirname "$0")" || exit 2
mkdir -p evidence .cache
if ! /venv/bin/python -c "import hypothesis" 2>/dev/null; then
    PIP_NO_INDEX=1 /venv/bin/pip install --no-index --find-links /opt/veriftools/wheels hypothesis || exit 2
fi
/venv/bin/python -c "import hypothesis, numpy, scipy, sklearn; print('setup ok: hypothesis', hypothesis.__version__)"
