#!/bin/sh
# MANIFEST.setup_cmd: offline, idempotent. Ensures hypothesis is importable by /venv/bin/python
# (the interpreter that has the repository and its dependencies installed).
cd "$(dirname "$0")" || exit 2
mkdir -p evidence .cache
if ! /venv/bin/python -c "import hypothesis" 2>/dev/null; then
    PIP_NO_INDEX=1 /venv/bin/pip install --no-index --find-links /opt/veriftools/wheels hypothesis || exit 2
fi
# optional: atheris (coverage-guided fuzzing supplement of the thorough tier for the two text parsers); kept beside the framework, not in /venv
if [ ! -d .deps/atheris ]; then
    PIP_NO_INDEX=1 /venv/bin/pip install --no-index --find-links /opt/veriftools/wheels --target .deps atheris >/dev/null 2>&1 || echo "atheris not installed (thorough-tier fuzz supplement will be skipped)"
fi
/venv/bin/python -c "import hypothesis, numpy, scipy, sklearn; print('setup ok: hypothesis', hypothesis.__version__)"
