#!/venv/bin/python
"""Evaluate independently produced breaking changes (from sub-agents) and keep the confirmed ones under /verif/seeded/<id>/.

    tools/seeded.py eval  <prop> <patch.diff> <demo.py> [--tier quick]      -> prints a JSON verdict
    tools/seeded.py keep  <prop> <name> <patch.diff> <demo.py> <notes.md>   -> evaluates, then writes seeded/<name>/{patch.diff,demo.py,meta.json}
    tools/seeded.py rerun [name ...]                                         -> re-runs the checks against every kept change (regression of the harness)

Everything happens on a scratch copy of /repo created under $(mktemp -d) and removed afterwards; /repo itself is never touched.
"""
import json
import os
import shutil
import subprocess
import sys
import tempfile
import time

HERE = os.path.dirname(os.path.dirname(os.path.abspath(__file__)))
PY = "/venv/bin/python"


def scratch():
    d = tempfile.mkdtemp(prefix="opticom-seed-")
    dst = os.path.join(d, "repo")
    shutil.copytree("/repo", dst, ignore=shutil.ignore_patterns(".git", "__pycache__", "docs", "examples", "*.egg-info"))
    return d, dst


def run_demo(dst, demo):
    env = dict(os.environ, PYTHONPATH=dst, MPLBACKEND="Agg", OMP_NUM_THREADS="1")
    p = subprocess.run([PY, demo], cwd=os.path.dirname(os.path.abspath(demo)), env=env, capture_output=True, text=True, timeout=900)
    return p.returncode, (p.stdout + p.stderr)[-400:]


def run_tests(dst):
    env = dict(os.environ, PYTHONPATH=dst, MPLBACKEND="Agg")
    p = subprocess.run([PY, "-m", "pytest", "-q", "-p", "no:cacheprovider", "tests"], cwd=dst, env=env, capture_output=True, text=True, timeout=1800)
    last = [l for l in p.stdout.splitlines() if l.strip()][-1] if p.stdout.strip() else ""
    return p.returncode, last


def run_check(dst, prop, tier, extra_props=()):
    out = {}
    for pr in (prop,) + tuple(extra_props):
        env = dict(os.environ, VERIF_REPO=dst)
        t0 = time.time()
        p = subprocess.run([os.path.join(HERE, "check"), pr, "--tier", tier], cwd=HERE, env=env, capture_output=True, text=True, timeout=4 * 3600)
        viol = [l.strip() for l in p.stdout.splitlines() if l.startswith("VIOLATION") or l.startswith("  part=")]
        out[pr] = {"rc": p.returncode, "wall_s": round(time.time() - t0, 1), "violations": [v[:300] for v in viol[:6]],
                   "stderr": p.stderr[-300:] if p.returncode == 2 else ""}
    return out


def evaluate(prop, patch, demo, tier="quick", extra_props=()):
    res = {"property": prop, "patch": os.path.abspath(patch)}
    d, dst = scratch()
    try:
        rc0, out0 = run_demo(dst, demo)
        res["demo_clean"] = {"rc": rc0, "tail": out0 if rc0 else ""}
        ap = subprocess.run(["git", "apply", "--whitespace=nowarn", os.path.abspath(patch)], cwd=dst, capture_output=True, text=True)
        if ap.returncode != 0:
            ap = subprocess.run(["patch", "-p1", "-i", os.path.abspath(patch)], cwd=dst, capture_output=True, text=True)
        res["applies"] = ap.returncode == 0
        if not res["applies"]:
            res["apply_error"] = (ap.stdout + ap.stderr)[-300:]
            return res
        rc1, out1 = run_demo(dst, demo)
        res["demo_patched"] = {"rc": rc1, "tail": out1[-300:]}
        trc, tlast = run_tests(dst)
        res["tests_patched"] = {"rc": trc, "summary": tlast}
        res["valid_seed"] = rc0 == 0 and rc1 != 0 and trc == 0
        res["checks"] = run_check(dst, prop, tier, extra_props)
        res["caught_by"] = [p for p, r in res["checks"].items() if r["rc"] == 1]
        res["caught"] = bool(res["caught_by"])
    finally:
        shutil.rmtree(d, ignore_errors=True)
    return res


def main():
    a = sys.argv[1:]
    tier = "quick"
    if "--tier" in a:
        i = a.index("--tier")
        tier = a[i + 1]
        del a[i:i + 2]
    extra = ()
    if "--also" in a:
        i = a.index("--also")
        extra = tuple(a[i + 1].split(","))
        del a[i:i + 2]
    if a[0] == "eval":
        print(json.dumps(evaluate(a[1], a[2], a[3], tier, extra), indent=1))
    elif a[0] == "keep":
        prop, name, patch, demo, notes = a[1:6]
        res = evaluate(prop, patch, demo, tier, extra)
        dst = os.path.join(HERE, "seeded", name)
        os.makedirs(dst, exist_ok=True)
        shutil.copy(patch, os.path.join(dst, "patch.diff"))
        shutil.copy(demo, os.path.join(dst, "demo.py"))
        meta = {"id": name, "breaks_property": prop, "source": "independent sub-agent given only the property text and a scratch worktree",
                "needs_to_manifest": open(notes).read() if os.path.exists(notes) else "", "verdict": res,
                "what_was_run": ["demo on a clean scratch copy (must exit 0)", "git apply patch.diff on the scratch copy", "demo on the patched copy (must fail)",
                                 "repository test-suite on the patched copy (must pass)", f"./check {prop} --tier {tier} with VERIF_REPO=<patched copy>"]}
        json.dump(meta, open(os.path.join(dst, "meta.json"), "w"), indent=1)
        print(json.dumps({k: res.get(k) for k in ("valid_seed", "caught", "caught_by", "applies")}, indent=0), name)
    elif a[0] == "rerun":
        names = a[1:] or sorted(os.listdir(os.path.join(HERE, "seeded")))
        tot = ok = 0
        for n in names:
            mp = os.path.join(HERE, "seeded", n, "meta.json")
            if not os.path.exists(mp):
                continue
            meta = json.load(open(mp))
            props = [meta["breaks_property"]] + [p for p in meta.get("also_check", [])]
            res = evaluate(props[0], os.path.join(HERE, "seeded", n, "patch.diff"), os.path.join(HERE, "seeded", n, "demo.py"), tier, tuple(props[1:]))
            meta["verdict"] = res
            json.dump(meta, open(mp, "w"), indent=1)
            tot += 1
            ok += bool(res.get("caught"))
            print(n, "valid" if res.get("valid_seed") else "INVALID", "CAUGHT by " + ",".join(res["caught_by"]) if res.get("caught") else "MISSED", flush=True)
        print(f"{ok}/{tot} seeded changes caught")


if __name__ == "__main__":
    main()
