#!/venv/bin/python
"""Prints the markdown tables of DESIGN.md 9.6/9.7 from the latest runs (evidence/*.json, .cache/*.log)."""
import glob
import json
import os
import re
import sys

HERE = os.path.dirname(os.path.dirname(os.path.abspath(__file__)))


def cost():
    thorough = {}
    for f in sorted(glob.glob(os.path.join(HERE, ".cache", "thorough*.log")) + glob.glob("/root/.vp/runs/*/log")):
        for l in open(f, errors="ignore"):
            m = re.match(r"(C\d\d) thorough seed=(\d+): evaluations=(\d+) distinct_nontrivial=(\d+) violations=(\d+) .* wall=([\d.]+)s", l)
            if m:
                thorough[m.group(1)] = (int(m.group(3)), int(m.group(4)), float(m.group(6)), int(m.group(5)))
    print("| prop | quick: evaluations | distinct non-trivial | wall (16 cores) | thorough: evaluations | distinct non-trivial | wall |")
    print("|---|---|---|---|---|---|---|")
    for f in sorted(glob.glob(os.path.join(HERE, "evidence", "C*.json"))):
        d = json.load(open(f))
        c = d["coverage"]
        t = thorough.get(d["property_id"])
        print(f"| {d['property_id']} | {c['evaluations']} | {c['distinct_nontrivial']} | {d['wall_s']:.0f} s | " + (f"{t[0]} | {t[1]} | {t[2]:.0f} s |" if t else "- | - | - |"))


def mutants():
    p = os.path.join(HERE, ".cache", "mutants_full.log")
    cat = {m["id"]: m for m in json.load(open(os.path.join(HERE, "tools", "mutants.json")))}
    print("| mutant | prop | what | expected | verdict |")
    print("|---|---|---|---|---|")
    for l in open(p):
        if not l.startswith("{"):
            continue
        r = json.loads(l)
        m = cat.get(r["id"], {})
        print(f"| {r['id']} | {r.get('prop', m.get('prop'))} | {m.get('why', '')[:120].replace('|', '/')} | {m.get('expect', 'CAUGHT')} | {r.get('status')} |")


if __name__ == "__main__":
    {"cost": cost, "mutants": mutants}[sys.argv[1]]()
