#!/venv/bin/python
"""Sensitivity harness (not a registered check).

    tools/mutants.py [--tests] [--tier quick] [ids or property ids ...]

For each catalogued single-site mutant: copy /repo to a scratch directory outside /repo and /verif, apply the textual
replacement, optionally run the repository's own test-suite on the scratch copy (the mutant must still pass it to be
interesting), run the property's check with VERIF_REPO=<scratch>, expect exit 1 + VIOLATION, delete the scratch copy.
"""
import json
import os
import shutil
import subprocess
import sys
import tempfile
import time

HERE = os.path.dirname(os.path.dirname(os.path.abspath(__file__)))
CAT = os.path.join(HERE, "tools", "mutants.json")


def run(m, tests, tier):
    scratch = tempfile.mkdtemp(prefix="opticom-mut-")
    try:
        dst = os.path.join(scratch, "repo")
        shutil.copytree("/repo", dst, ignore=shutil.ignore_patterns(".git", "__pycache__", "docs", "examples", "*.egg-info"))
        path = os.path.join(dst, m["file"])
        src = open(path).read()
        if src.count(m["old"]) != 1:
            return {"id": m["id"], "status": f"BAD-PATTERN (count={src.count(m['old'])})"}
        open(path, "w").write(src.replace(m["old"], m["new"]))
        res = {"id": m["id"], "prop": m["prop"]}
        if tests:
            env = dict(os.environ, PYTHONPATH=dst, MPLBACKEND="Agg")
            t = subprocess.run(["/venv/bin/python", "-m", "pytest", "-q", "-x", "-p", "no:cacheprovider", "tests"], cwd=dst, env=env,
                               capture_output=True, text=True, timeout=900)
            res["tests"] = "pass" if t.returncode == 0 else "FAIL"
        env = dict(os.environ, VERIF_REPO=dst)
        t0 = time.time()
        cmd = [os.path.join(HERE, "check"), m["prop"], "--tier", tier]
        if m.get("parts"):
            cmd += ["--parts", m["parts"]]
        p = subprocess.run(cmd, cwd=HERE, env=env, capture_output=True, text=True, timeout=3600)
        res["wall"] = round(time.time() - t0, 1)
        res["rc"] = p.returncode
        viol = [l for l in p.stdout.splitlines() if l.startswith("VIOLATION") or l.startswith("  part=")]
        res["status"] = "CAUGHT" if p.returncode == 1 and viol else ("HARNESS-ERROR" if p.returncode == 2 else "MISSED")
        res["detail"] = viol[:4] if viol else p.stderr[-600:]
        # violation replays written for a mutant are not findings on the real tree
        for l in p.stdout.splitlines():
            if l.startswith("VIOLATION") and "replay=" in l:
                f = l.split("replay=")[1].strip()
                if os.path.basename(f).startswith("viol-") and os.path.exists(f):
                    os.remove(f)
        return res
    finally:
        shutil.rmtree(scratch, ignore_errors=True)


def main():
    args = sys.argv[1:]
    tests = "--tests" in args
    tier = "quick"
    if "--tier" in args:
        tier = args[args.index("--tier") + 1]
    sel = [a for a in args if not a.startswith("--") and a not in ("quick", "thorough")]
    cat = json.load(open(CAT))
    todo = [m for m in cat if not sel or m["id"] in sel or m["prop"] in sel]
    out = []
    for m in todo:
        r = run(m, tests, tier)
        out.append(r)
        print(json.dumps(r), flush=True)
    caught = sum(1 for r in out if r.get("status") == "CAUGHT")
    exp = {m["id"]: m.get("expect", "CAUGHT") for m in cat}
    as_expected = sum(1 for r in out if r.get("status") == exp.get(r["id"], "CAUGHT"))
    print(f"{caught}/{len(out)} mutants caught; {as_expected}/{len(out)} verdicts as expected "
          f"(expected misses are benign refactors / property-preserving changes that must NOT raise an alarm)")
    for r in out:
        if r.get("status") != exp.get(r["id"], "CAUGHT"):
            print("UNEXPECTED:", r["id"], r.get("status"))


if __name__ == "__main__":
    main()
