"""Regenerate MANIFEST.json from the table below (keeps it valid at all times)."""
import json, os
HERE = os.path.dirname(os.path.dirname(os.path.abspath(__file__)))
BASE = "cd /repo && /venv/bin/python -m pytest -ra -q -p no:cacheprovider --timeout=900 --continue-on-collection-errors tests"

CHECKS = json.load(open(os.path.join(HERE, "tools", "checks.json")))
ALL = ["C%02d" % i for i in range(1, 21)]
claimed = [c["property_id"] for c in CHECKS]
man = {
    "version": 1,
    "setup_cmd": "sh ./setup.sh",
    "hooks": {
        "guard": "OPTICOMLIB_VERIF",
        "enable": "no source hooks are needed: every observation point is a public return value or attribute; checks import "
                  "opticomlib from /repo's working tree (VERIF_REPO overrides the path for the mutant harness) and compile it from source on every run",
        "baseline_off_cmd": BASE,
        "source_commits": [],
        "add_only": True,
    },
    "engines": [{"name": "vf", "path": "vf/runner.py", "serves_properties": claimed,
                 "kind_free_text": "Hypothesis 6.168 property-based testing (given / RuleBasedStateMachine), exhaustive enumeration of small finite domains, "
                                   "sharded over 16 worker processes; explicit oracles (reference models, round trips, differential and metamorphic relations)"}],
    "checks": [],
    "notes": "Genuine defects found by the checks were repaired by minimal 'fix:' commits in /repo and are listed in known_findings.json ('fixed'); "
             "open findings (none suppress other violations) are listed there under 'open'. See DESIGN.md.",
    "not_applicable": [{"property_id": p, "reason": "check not yet built in this session (work in progress; see DESIGN.md section 4 for the planned generator/oracle)"}
                       for p in ALL if p not in claimed],
}
for c in CHECKS:
    pid = c["property_id"]
    man["checks"].append({
        "property_id": pid,
        "quick_cmd": f"./check {pid} --tier quick",
        "thorough_cmd": f"./check {pid} --tier thorough",
        "evidence_file": f"evidence/{pid}.json",
        "replay_cmd_template": f"./check {pid} --replay {{path}}",
        "engine": "vf",
        "level_claimed": {"category": "exploration", "text": c["text"], "design_ref": f"DESIGN.md section 4, {pid}"},
        "level_note": c["note"],
        "technique": c["technique"],
    })
json.dump(man, open(os.path.join(HERE, "MANIFEST.json"), "w"), indent=1)
print("MANIFEST.json:", len(man["checks"]), "checks,", len(man["not_applicable"]), "not applicable")
