"""Print a Python file with docstrings and blank lines removed (reading aid)."""
import ast, sys
src = open(sys.argv[1]).read()
lo = int(sys.argv[2]) if len(sys.argv) > 2 else 1
hi = int(sys.argv[3]) if len(sys.argv) > 3 else 10**9
tree = ast.parse(src)
skip = set()
for node in ast.walk(tree):
    if isinstance(node, (ast.FunctionDef, ast.ClassDef, ast.Module)):
        b = node.body
        if b and isinstance(b[0], ast.Expr) and isinstance(getattr(b[0], 'value', None), ast.Constant) and isinstance(b[0].value.value, str):
            skip.update(range(b[0].lineno, b[0].end_lineno + 1))
    elif isinstance(node, ast.Expr) and isinstance(getattr(node, 'value', None), ast.Constant) and isinstance(node.value.value, str):
        skip.update(range(node.lineno, node.end_lineno + 1))
for i, l in enumerate(src.split('\n'), 1):
    if i < lo or i > hi or i in skip or not l.strip():
        continue
    print(f"{i}\t{l}")
