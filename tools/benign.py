#!/venv/bin/python
"""Property-PRESERVING changes produced by independent sub-agents: the checks must stay silent on them.

    tools/benign.py keep  <prop> <name> <patch.diff> <verify.py> <notes.md> [--also C07,C02]  -> evaluates, writes benign/<name>/
    tools/benign.py rerun [name ...]                                                           -> re-runs the checks against every kept change

Everything happens on a scratch copy of /repo (mktemp -d), removed afterwards; /repo itself is never touched. A change is `valid`
when its own verify script passes on the clean copy and on the patched copy and the repository's tests pass on the patched copy.
Verdict SILENT = every listed check exits 0 on the patched copy; ALARM = some check reported a violation (then either the change does
break the property - look at the replay - or the check is over-strict and must be corrected).
"""
import json
import os
import shutil
import sys

sys.path.insert(0, os.path.dirname(os.path.abspath(__file__)))
from seeded import scratch, run_demo, run_tests, run_check, HERE  # noqa: E402
import subprocess  # noqa: E402


def evaluate(prop, patch, verify, tier="quick", extra=()):
    res = {"property": prop}
    d, dst = scratch()
    try:
        rc0, out0 = run_demo(dst, verify)
        res["verify_clean"] = {"rc": rc0, "tail": out0[-200:]}
        ap = subprocess.run(["git", "apply", "--whitespace=nowarn", os.path.abspath(patch)], cwd=dst, capture_output=True, text=True)
        if ap.returncode != 0:
            ap = subprocess.run(["patch", "-p1", "-i", os.path.abspath(patch)], cwd=dst, capture_output=True, text=True)
        res["applies"] = ap.returncode == 0
        if not res["applies"]:
            res["apply_error"] = (ap.stdout + ap.stderr)[-300:]
            return res
        rc1, out1 = run_demo(dst, verify)
        res["verify_patched"] = {"rc": rc1, "tail": out1[-200:]}
        trc, tlast = run_tests(dst)
        res["tests_patched"] = {"rc": trc, "summary": tlast}
        res["valid"] = rc0 == 0 and rc1 == 0 and trc == 0
        res["checks"] = run_check(dst, prop, tier, extra)
        res["alarms"] = [p for p, r in res["checks"].items() if r["rc"] != 0]
        res["silent"] = not res["alarms"]
    finally:
        shutil.rmtree(d, ignore_errors=True)
    return res


def main():
    a = sys.argv[1:]
    extra = ()
    if "--also" in a:
        i = a.index("--also")
        extra = tuple(a[i + 1].split(","))
        del a[i:i + 2]
    if a[0] == "keep":
        prop, name, patch, verify, notes = a[1:6]
        res = evaluate(prop, patch, verify, "quick", extra)
        dst = os.path.join(HERE, "benign", name)
        os.makedirs(dst, exist_ok=True)
        shutil.copy(patch, os.path.join(dst, "patch.diff"))
        shutil.copy(verify, os.path.join(dst, "verify.py"))
        meta = {"id": name, "preserves_property": prop, "also_check": list(extra),
                "source": "independent sub-agent given only the property text and a scratch worktree, asked for a property-preserving refactor",
                "notes": open(notes).read() if os.path.exists(notes) else "", "verdict": res}
        json.dump(meta, open(os.path.join(dst, "meta.json"), "w"), indent=1)
        print(name, "valid" if res.get("valid") else "INVALID", "SILENT" if res.get("silent") else "ALARM " + json.dumps(
            {p: r["violations"][:2] for p, r in res.get("checks", {}).items() if r["rc"] != 0})[:600], flush=True)
    elif a[0] == "rerun":
        names = a[1:] or sorted(os.listdir(os.path.join(HERE, "benign")))
        tot = ok = 0
        for n in names:
            mp = os.path.join(HERE, "benign", n, "meta.json")
            if not os.path.exists(mp):
                continue
            meta = json.load(open(mp))
            res = evaluate(meta["preserves_property"], os.path.join(HERE, "benign", n, "patch.diff"), os.path.join(HERE, "benign", n, "verify.py"), "quick",
                           () if os.environ.get("BENIGN_OWN") else tuple(meta.get("also_check", [])))
            meta["verdict"] = res
            json.dump(meta, open(mp, "w"), indent=1)
            tot += 1
            ok += bool(res.get("silent"))
            print(n, "valid" if res.get("valid") else "INVALID", "SILENT" if res.get("silent") else "ALARM " + ",".join(res.get("alarms", [])), flush=True)
        print(f"{ok}/{tot} property-preserving changes left the checks silent")


if __name__ == "__main__":
    main()
