#!/venv/bin/python
"""Coverage-guided fuzz target (atheris / libFuzzer) for the two pure-Python text parsers:

    python -m vf.fuzz_text str2array <corpus_dir> -runs=N -seed=S -max_len=48 ...
    python -m vf.fuzz_text binseq    <corpus_dir> ...

The semantic oracle is inside the target (a crash is a property violation, not a memory error):
  str2array : returns an ndarray of dtype bool/int/float/complex, or raises ValueError - nothing else; any character outside the
              grammar [0-9 , ; . + - whitespace i j] must be rejected; text made only of 0/1 digits (and separators) with equal row lengths
              is read digit by digit.
  binseq    : binary_sequence(text) either raises ValueError/TypeError or holds 1-D uint8 data made of 0/1 equal to the digits of the text.
A failing input is written by libFuzzer as crash-<sha1> into the current directory; the parent (vf.props.c19 / c15) turns it into a replay.
"""
import os
import re
import sys

HERE = os.path.dirname(os.path.dirname(os.path.abspath(__file__)))
sys.path.insert(0, os.path.join(HERE, ".deps"))
sys.path.insert(0, HERE)

import atheris  # noqa: E402

with atheris.instrument_imports(include=["opticomlib"]):
    import vf.lib  # noqa: E402,F401

from vf.textoracle import TARGETS, decode  # noqa: E402  (imported after instrumentation so that opticomlib is instrumented)


def main():
    which = sys.argv[1]
    fn = TARGETS[which]

    def one(data):
        text, dt = decode(data)
        fn(text, dt)
    atheris.Setup([sys.argv[0]] + sys.argv[2:], one)
    atheris.Fuzz()


if __name__ == "__main__":
    main()
