"""Semantic oracles of the two text parsers, shared by the atheris fuzz target (vf.fuzz_text) and by replay (no atheris import here)."""
import re

import numpy as np

from .lib import U, binary_sequence

ALPHABET = "01" * 3 + "23456789" + ",; .+-ji" * 2 + "e\t\n"


def decode(data):
    """bytes -> text: mostly over the grammar's alphabet so that the fuzzer reaches the parsing logic, raw bytes otherwise"""
    if not data:
        return "", None
    mode = data[0]
    body = data[1:]
    dt = (None, None, int, float, complex, bool)[mode % 6]
    if (mode >> 4) % 4 == 3:
        text = body.decode("latin-1")
    else:
        text = "".join(ALPHABET[b % len(ALPHABET)] for b in body)
    return text, dt


def check_str2array(text, dt):
    try:
        r = U.str2array(text) if dt is None else U.str2array(text, dt)
    except ValueError:
        return
    except OverflowError:
        # an integer literal beyond 64 bits is not the textual form of any integer array (outside the statement's domain)
        if re.search(r"\d{19,}", text):
            return
        raise
    if not (isinstance(r, np.ndarray) and r.dtype.kind in "biufc"):
        raise AssertionError(f"str2array({text!r}, {dt}) returned {type(r).__name__} {getattr(r, 'dtype', '')}")
    if re.search(r"[^0-9,;.+\-\sji]", text):
        raise AssertionError(f"str2array accepted a character outside the grammar: {text!r} -> {r!r}")
    if dt is None and re.fullmatch(r"[01,;\s]+", text):
        rows = [[int(ch) for ch in line if ch in "01"] for line in text.split(";")]
        if len({len(x) for x in rows}) == 1 and rows[0]:
            want = np.array(rows[0] if len(rows) == 1 else rows, dtype=bool)
            if not (r.dtype == np.bool_ and r.shape == want.shape and np.array_equal(r, want)):
                raise AssertionError(f"bit text {text!r} not read digit by digit: {r!r}")


def check_binseq(text, dt):
    try:
        b = binary_sequence(text)
    except (ValueError, TypeError):
        return
    d = b.data
    if not (isinstance(d, np.ndarray) and d.ndim == 1 and d.dtype == np.uint8 and np.all((d == 0) | (d == 1))):
        raise AssertionError(f"binary_sequence({text!r}) holds invalid data {d!r}")
    if re.search(r"[^0-9,;.+\-\sji]", text):
        raise AssertionError(f"binary_sequence accepted {text!r}")
    if len(b) != d.size or int(b.ones()) + int(b.zeros()) != len(b):
        raise AssertionError("len/ones/zeros inconsistent")


TARGETS = {"str2array": check_str2array, "binseq": check_binseq}




# --------------------------------------------------------------------------------------------------
# driver used by the property modules (thorough tier): run a libFuzzer campaign in a scratch directory, turn a crash into a violation

def run_campaign(ctx, which, runs, max_len=40):
    """custom Part body. ctx.run() is used for the crash input so that replay files work without atheris."""
    import os
    import shutil
    import subprocess
    import sys
    from .core import Violation
    here = os.path.dirname(os.path.dirname(os.path.abspath(__file__)))
    if not os.path.isdir(os.path.join(here, ".deps", "atheris")):
        ctx.classes["atheris-not-installed"] += 1
        return
    work = os.path.join(here, ".cache", f"fuzz-{which}-{os.getpid()}")
    shutil.rmtree(work, ignore_errors=True)
    os.makedirs(os.path.join(work, "corpus"))
    try:
        seeds = [b"\x30" + t.encode("latin-1") for t in ("1,2,3;4,5,6", "0101", "1 0 1;0 1 0", "1.5 -2.25", "1+2j, 3-4i", "10 100 1000", "")]
        # campaign 1: empty corpus; campaign 2: a few small valid inputs from the documentation
        for k, with_seeds in enumerate((False, True)):
            cdir = os.path.join(work, f"corpus{k}")
            os.makedirs(cdir)
            if with_seeds:
                for i, sd in enumerate(seeds):
                    open(os.path.join(cdir, f"seed{i}"), "wb").write(sd)
            cmd = [sys.executable, "-m", "vf.fuzz_text", which, cdir, f"-runs={runs}", f"-seed={(ctx.seed + k) % 2**31 or 1}", f"-max_len={max_len}",
                   "-timeout=20", "-print_final_stats=1", f"-artifact_prefix={work}/"]
            env = dict(os.environ, PYTHONPATH=here)
            p = subprocess.run(cmd, cwd=here, env=env, capture_output=True, text=True, timeout=1800)
            m = re.search(r"stat::number_of_executed_units:\s*(\d+)", p.stderr)
            execs = int(m.group(1)) if m else 0
            cov = re.findall(r"cov: (\d+)", p.stderr)
            ctx.add_bulk(execs, 0, classes={"executions": execs, f"campaign{k}-final-cov": int(cov[-1]) if cov else 0, "corpus-files": len(os.listdir(cdir))},
                         sample={"campaign": k, "with_seed_corpus": with_seeds, "executions": execs, "cov": int(cov[-1]) if cov else None})
            crashes = [f for f in os.listdir(work) if f.startswith(("crash-", "timeout-"))]
            for f in crashes:
                data = open(os.path.join(work, f), "rb").read()
                text, dt = decode(data)
                case = {"text": text, "dtype": {None: None, int: "int", float: "float", complex: "complex", bool: "bool"}[dt], "fuzz_input_hex": data.hex()}
                try:
                    ctx.run(case)
                except Violation:
                    ctx.violations.append(ctx.failing)
                    return
                ctx.inconclusive.append({"case": case, "why": "libFuzzer artifact did not reproduce through the oracle"})
            # a few corpus entries as non-trivial distinct cases (inputs that increased coverage)
            for f in sorted(os.listdir(cdir))[:400]:
                data = open(os.path.join(cdir, f), "rb").read()
                text, dt = decode(data)
                try:
                    ctx.run({"text": text, "dtype": {None: None, int: "int", float: "float", complex: "complex", bool: "bool"}[dt]})
                except Violation:
                    ctx.violations.append(ctx.failing)
                    return
    finally:
        shutil.rmtree(work, ignore_errors=True)


def eval_text(which):
    from .core import Violation

    def ev(case):
        dt = {None: None, "int": int, "float": float, "complex": complex, "bool": bool}[case.get("dtype")]
        try:
            TARGETS[which](case["text"], dt)
        except AssertionError as e:
            raise Violation(f"{which}-fuzz-oracle", str(e)[:300]) from None
        return {"nontrivial": True, "classes": ["corpus-entry"]}
    return ev
