"""Import the code under test from the *current working tree* ($VERIF_REPO, default /repo)."""
import os
import sys

REPO = os.path.realpath(os.environ.get("VERIF_REPO", "/repo"))
if REPO not in sys.path:
    sys.path.insert(0, REPO)

for _k in ("OMP_NUM_THREADS", "OPENBLAS_NUM_THREADS", "MKL_NUM_THREADS"):
    os.environ.setdefault(_k, "1")
os.environ.setdefault("MPLBACKEND", "Agg")

import warnings  # noqa: E402

with warnings.catch_warnings():
    warnings.simplefilter("ignore")
    # third-party dependencies first (their cached byte-code is fine) ...
    import numpy as np  # noqa: E402,F401
    import scipy.signal, scipy.stats, scipy.integrate, scipy.special, scipy.constants  # noqa: E402,F401,E401
    import sklearn.cluster  # noqa: E402,F401
    import matplotlib.pyplot  # noqa: E402,F401
    import tqdm.auto, pympler.asizeof, pyvisa  # noqa: E402,F401,E401
    # ... then the code under test, always compiled from the sources found now (no stale .pyc can be used:
    # the cache prefix points at a directory that does not exist and nothing is written)
    _old = (sys.pycache_prefix, sys.dont_write_bytecode)
    sys.pycache_prefix = os.path.join(os.path.dirname(os.path.dirname(os.path.abspath(__file__))), ".cache", "no-such-pycache")
    sys.dont_write_bytecode = True
    import opticomlib  # noqa: E402
    from opticomlib import typing as T  # noqa: E402
    from opticomlib import utils as U  # noqa: E402
    from opticomlib import devices as D  # noqa: E402
    from opticomlib import ook as OOK  # noqa: E402
    from opticomlib import ppm as PPM  # noqa: E402
    from opticomlib import lab as LAB  # noqa: E402
    sys.pycache_prefix, sys.dont_write_bytecode = _old
warnings.simplefilter("ignore")

_f = os.path.realpath(opticomlib.__file__)
if not _f.startswith(REPO + os.sep):
    sys.stderr.write(f"HARNESS ERROR: opticomlib imported from {_f}, expected under {REPO}\n")
    sys.exit(2)

gv = T.gv
electrical_signal = T.electrical_signal
optical_signal = T.optical_signal
binary_sequence = T.binary_sequence
eye = T.eye


def reset():
    """Reset the library's global state at the top of every generated case."""
    gv.clean()
    warnings.resetwarnings()
    warnings.simplefilter("ignore")


# custom attributes a user may keep in gv for their own use (documented **kargs of gv) whose NAMES coincide with parameters of the device
# functions: a device called with its documented defaults must not pick them up
SHADOW = dict(Vpi=3.3, BW=1.234e9, G=7.0, NF=9.0, r=0.2, T=77.0, M=8, n=2, bias=1.0, loss_dB=3.0, ER_dB=10.0, pol="y", R_load=7.0, Fn=3.0,
              alpha=0.33, beta_2=5.0, beta_3=0.7, gamma=9.0, phi_max=0.5, length=3.0, D=123.0, Vout=2.0, pulse_shape="rz", include_noise="thermal-only",
              i_dark=1e-6, lw=1e5, rin=-120.0, df=1e9, nslots=64, sps_resamp=16, otype="n", threshold=0.3, decision="soft")


def shadow_gv():
    """add the SHADOW attributes to gv, keeping every reserved value now in force"""
    kw = dict(sps=gv.sps, R=gv.R, wavelength=gv.wavelength)
    if gv.N is not None:
        kw["N"] = gv.N
    fs = gv.fs
    gv(**kw, **SHADOW)
    if gv.fs != fs:
        gv(sps=gv.sps, fs=fs, wavelength=gv.wavelength, **({"N": gv.N} if gv.N is not None else {}), **SHADOW)
    assert gv.fs == fs and gv.Vpi == 3.3
