"""Import the code under test from the *current working tree* ($VERIF_REPO, default /repo)."""
import os
import sys

REPO = os.path.realpath(os.environ.get("VERIF_REPO", "/repo"))
if REPO not in sys.path:
    sys.path.insert(0, REPO)

for _k in ("OMP_NUM_THREADS", "OPENBLAS_NUM_THREADS", "MKL_NUM_THREADS"):
    os.environ.setdefault(_k, "1")
os.environ.setdefault("MPLBACKEND", "Agg")

import warnings  # noqa: E402

with warnings.catch_warnings():
    warnings.simplefilter("ignore")
    # third-party dependencies first (their cached byte-code is fine) ...
    import numpy as np  # noqa: E402,F401
    import scipy.signal, scipy.stats, scipy.integrate, scipy.special, scipy.constants  # noqa: E402,F401,E401
    import sklearn.cluster  # noqa: E402,F401
    import matplotlib.pyplot  # noqa: E402,F401
    import tqdm.auto, pympler.asizeof, pyvisa  # noqa: E402,F401,E401
    # ... then the code under test, always compiled from the sources found now (no stale .pyc can be used:
    # the cache prefix points at a directory that does not exist and nothing is written)
    _old = (sys.pycache_prefix, sys.dont_write_bytecode)
    sys.pycache_prefix = os.path.join(os.path.dirname(os.path.dirname(os.path.abspath(__file__))), ".cache", "no-such-pycache")
    sys.dont_write_bytecode = True
    import opticomlib  # noqa: E402
    from opticomlib import typing as T  # noqa: E402
    from opticomlib import utils as U  # noqa: E402
    from opticomlib import devices as D  # noqa: E402
    from opticomlib import ook as OOK  # noqa: E402
    from opticomlib import ppm as PPM  # noqa: E402
    from opticomlib import lab as LAB  # noqa: E402
    sys.pycache_prefix, sys.dont_write_bytecode = _old
warnings.simplefilter("ignore")

_f = os.path.realpath(opticomlib.__file__)
if not _f.startswith(REPO + os.sep):
    sys.stderr.write(f"HARNESS ERROR: opticomlib imported from {_f}, expected under {REPO}\n")
    sys.exit(2)

gv = T.gv
electrical_signal = T.electrical_signal
optical_signal = T.optical_signal
binary_sequence = T.binary_sequence
eye = T.eye


def reset():
    """Reset the library's global state at the top of every generated case."""
    gv.clean()
    warnings.resetwarnings()
    warnings.simplefilter("ignore")
