"""Runner: tiers, seeds, sharding over worker processes, watchdog, replay, evidence, known findings.

    python -m vf.runner C07 --tier quick|thorough
    python -m vf.runner C07 --replay FILE
    python -m vf.runner --worker JOB.json            (internal)

Exit 0: held on everything explored (KNOWN-FINDING lines may be printed); 1: VIOLATION; 2: harness error.
"""
import argparse
import collections
import importlib
import json
import os
import signal
import subprocess
import sys
import time
import traceback

HERE = os.path.dirname(os.path.dirname(os.path.abspath(__file__)))
# When the checks are pointed at a scratch copy (mutant harness), evidence and violation replays must not
# overwrite those of the real tree.
ALT = os.path.realpath(os.environ.get("VERIF_REPO", "/repo")) != "/repo"
OUT = os.path.join(HERE, ".cache", "alt-tree") if ALT else HERE
MAX_DIGESTS = 300_000


# ==================================================================================================
# Part description (used by property modules)

class Part:
    def __init__(self, name, eval_case=None, strategy=None, quick=0, thorough=0, shards=16, quick_shards=1,
                 kind="given", enum=None, custom=None, machine=None, shrink=True, timeout=None,
                 steps_quick=30, steps_thorough=60, rule="", exhaustive=False, only_tier=None):
        self.name = name
        self.eval_case = eval_case
        self.strategy = strategy
        self.quick = quick
        self.thorough = thorough
        self.shards = shards
        self.quick_shards = quick_shards
        self.kind = kind
        self.enum = enum
        self.custom = custom
        self.machine = machine
        self.shrink = shrink
        self.timeout = timeout
        self.steps_quick = steps_quick
        self.steps_thorough = steps_thorough
        self.rule = rule
        self.exhaustive = exhaustive
        self.only_tier = only_tier


# ==================================================================================================
# Worker-side context

class Ctx:
    def __init__(self, prop, mod, part, tier, seed, shard, nshards):
        self.prop, self.mod, self.part, self.tier = prop, mod, part, tier
        self.seed, self.shard, self.nshards = seed, shard, nshards
        self.evaluations = 0
        self.digests = set()
        self.bulk_nontrivial = 0
        self.classes = collections.Counter()
        self.samples = []
        self.kf_hits = collections.Counter()
        self.violations = []
        self.failing = None
        self.failures = []                              # every failing evaluation, in order
        self.log = []                                   # every case evaluated so far, in order (state left behind in the library)
        self.abort = False
        self.inconclusive = []
        self.exhaustive_domains = []
        self.known = load_known(prop)

    # -- bookkeeping -------------------------------------------------------------------------
    def note(self, case, info):
        from .core import digest
        info = info or {}
        self.evaluations += int(info.get("weight", 1)) - 1
        for c in info.get("classes", ()):  # histogram of generated shapes
            self.classes[c] += 1
        if info.get("nontrivial"):
            if len(self.digests) < MAX_DIGESTS:
                d = digest(case)
                new = d not in self.digests
                self.digests.add(d)
            else:
                new = False
                self.bulk_nontrivial += 0
            self.classes["nontrivial"] += 1
            if new and (len(self.samples) < 3 or (len(self.samples) < 6 and self.evaluations % 97 == 0)):
                self.samples.append(case)
        elif not self.samples and self.evaluations > 50:
            self.samples.append(case)

    def add_bulk(self, evaluations, nontrivial, classes=None, sample=None, domain=None):
        """For vectorised / enumerated sweeps whose cases are distinct by construction."""
        self.evaluations += int(evaluations)
        self.bulk_nontrivial += int(nontrivial)
        for k, v in (classes or {}).items():
            self.classes[k] += int(v)
        if sample is not None and len(self.samples) < 6:
            self.samples.append(sample)
        if domain:
            self.exhaustive_domains.append(domain)

    def classify(self, case, v):
        f = getattr(self.mod, "classify", None)
        if f is None:
            return None
        try:
            fid = f(self.part.name, case, v)
        except Exception:  # noqa: BLE001
            return None
        if fid and any(e["id"] == fid for e in self.known):
            return fid
        return None

    # -- one generated case -------------------------------------------------------------------
    def run(self, case, eval_case=None):
        from .core import Violation, CaseTimeout
        if self.abort:
            return None
        ev = eval_case or self.part.eval_case
        self.evaluations += 1
        before = len(self.log)
        if before < 50000:
            self.log.append(case)
        try:
            info = self._guarded(ev, case)
        except Violation as v:
            fid = self.classify(case, v)
            if fid:
                self.kf_hits[fid] += 1
                return None
            self.failing = {"case": case, "tag": v.tag, "msg": v.msg, "before": before}
            if len(self.failures) < 200:
                self.failures.append(self.failing)
            raise
        except CaseTimeout:
            # confirm once with a doubled budget, then report without shrinking (a hang cannot be shrunk)
            try:
                self._guarded(ev, case, scale=2.0)
            except CaseTimeout:
                self.violations.append({"case": case, "tag": "does-not-return",
                                        "msg": f"call did not return within {2 * self.part.timeout:.0f} s (confirmed twice)"})
                self.abort = True
                return None
            except Violation as v:
                self.failing = {"case": case, "tag": v.tag, "msg": v.msg}
                raise
            self.inconclusive.append({"case": case, "why": "timeout not reproduced"})
            return None
        except Exception as e:  # noqa: BLE001
            if _from_library(e):
                v = Violation(f"raises:{type(e).__name__}", f"unexpected {type(e).__name__}: {str(e)[:200]} ({_where(e)})")
                fid = self.classify(case, v)
                if fid:
                    self.kf_hits[fid] += 1
                    return None
                self.failing = {"case": case, "tag": v.tag, "msg": v.msg}
                raise v from None
            raise
        self.note(case, info)
        return info

    def _guarded(self, ev, case, scale=1.0):
        from .core import CaseTimeout, set_callform, digest
        try:
            set_callform(1 + int(digest(case)[:7], 16))       # positional / keyword form of the library calls of this case
        except Exception:  # noqa: BLE001
            set_callform(1)
        t = self.part.timeout
        if not t:
            return ev(case)

        def on_alarm(signum, frame):
            raise CaseTimeout()
        old = signal.signal(signal.SIGALRM, on_alarm)
        signal.setitimer(signal.ITIMER_REAL, t * scale)
        try:
            return ev(case)
        finally:
            signal.setitimer(signal.ITIMER_REAL, 0)
            signal.signal(signal.SIGALRM, old)


def _from_library(e):
    tb = traceback.extract_tb(e.__traceback__)
    return any("/opticomlib/" in f.filename for f in tb)


def _where(e):
    tb = traceback.extract_tb(e.__traceback__)
    for f in reversed(tb):
        if "/opticomlib/" in f.filename:
            return f"{os.path.basename(f.filename)}:{f.lineno}"
    return "?"


# ==================================================================================================
# Known findings

def load_known(prop, which="open"):
    p = os.path.join(HERE, "known_findings.json")
    if not os.path.exists(p):
        return []
    with open(p) as f:
        data = json.load(f)
    return [e for e in data.get(which, []) if isinstance(e, dict) and e.get("property") == prop]


# ==================================================================================================
# Worker

def hyp_settings(n, shrink, steps=None):
    from hypothesis import settings, HealthCheck, Phase, Verbosity
    phases = [Phase.generate, Phase.shrink] if shrink else [Phase.generate]
    kw = dict(max_examples=max(1, n), database=None, deadline=None, derandomize=False,
              report_multiple_bugs=False, suppress_health_check=list(HealthCheck), print_blob=False,
              phases=phases, verbosity=Verbosity.quiet)
    if steps is not None:
        kw["stateful_step_count"] = steps
    return settings(**kw)


def run_part(ctx, n):
    """Run one part in this process. Fills ctx; never raises for violations."""
    from .core import Violation
    import hypothesis
    from hypothesis import given
    from hypothesis.errors import Flaky
    part = ctx.part
    try:
        if part.kind == "given":
            @hypothesis.seed(ctx.seed)
            @hyp_settings(n, part.shrink)
            @given(part.strategy)
            def t(case):
                ctx.run(case)
            t()
        elif part.kind == "enum":
            for case in part.enum(ctx.tier, ctx.shard, ctx.nshards):
                ctx.run(case)
                if ctx.abort:
                    break
        elif part.kind == "custom":
            part.custom(ctx, n)
        elif part.kind == "machine":
            from hypothesis.stateful import run_state_machine_as_test
            cls = part.machine(ctx)
            steps = part.steps_quick if ctx.tier == "quick" else part.steps_thorough
            run_state_machine_as_test(hypothesis.seed(ctx.seed)(cls), settings=hyp_settings(n, part.shrink, steps))
        else:
            raise RuntimeError(f"unknown part kind {part.kind}")
    except Violation:
        if ctx.failing is None:
            raise
        f = ctx.failing
        if part.kind == "given" and ctx.failures and f["case"] != ctx.failures[0]["case"] and not _fresh_fails(ctx.prop, part, [], f["case"]) \
                and _fresh_fails(ctx.prop, part, [], ctx.failures[0]["case"]):
            # the shrunk case only fails on top of state left by earlier evaluations; the first failure is self-contained: report that one
            f = ctx.failures[0]
        f = dict(f)
        f.pop("before", None)
        ctx.violations.append(f)
    except Flaky:
        # The failure did not reproduce on Hypothesis' own re-execution. Decide by direct replay.
        f = ctx.failing
        if f is None:
            raise
        bad = 0
        for _ in range(3):
            try:
                _eval(part, f["case"])
            except Violation:
                bad += 1
        if bad:
            f = dict(f)
            f["msg"] += f" [non-deterministic: failed {bad}/3 direct replays]"
            ctx.violations.append(f)
        else:
            # Not a function of that case alone in this process. Hypothesis may have "simplified" the first failure into a case that only
            # failed because of state the earlier evaluations left behind in the library. Decide in FRESH processes, starting from the
            # earliest failure seen: (1) that case alone, (2) that case after the cases evaluated before it (history then reduced).
            f0 = ctx.failures[0] if ctx.failures else f
            hist = None
            found = False
            if _fresh_fails(ctx.prop, part, [], f0["case"]):
                found = True
            else:
                prior = ctx.log[:f0.get("before", 0)]
                k = 1
                while prior:
                    seq = prior[-k:]
                    if _fresh_fails(ctx.prop, part, seq, f0["case"]):
                        hist = seq
                        break
                    if k >= len(prior) or k >= 1024:
                        break
                    k *= 4
                if hist is not None:
                    budget, i = 24, 0
                    while i < len(hist) and budget > 0 and len(hist) > 1:
                        cand = hist[:i] + hist[i + 1:]
                        budget -= 1
                        if _fresh_fails(ctx.prop, part, cand, f0["case"]):
                            hist = cand
                        else:
                            i += 1
                    found = len(hist) <= 12 or _fresh_fails(ctx.prop, part, hist[-12:], f0["case"])
                    hist = hist[-12:]
            if found:
                f = dict(f0)
                f.pop("before", None)
                if hist:
                    f["history"] = hist
                    f["msg"] += f" [only after {len(hist)} other case(s) evaluated earlier in the same process: state leaks between calls]"
                ctx.violations.append(f)
            else:
                ctx.inconclusive.append({"case": f["case"], "why": "failure not reproducible on direct replay"})
    except BaseException as e:  # noqa: BLE001
        # Hypothesis may wrap the violation (ExceptionGroup / notes); fall back on the recorded case
        if ctx.failing is not None and _mentions_violation(e):
            ctx.violations.append(ctx.failing)
        else:
            raise


def _fresh_fails(prop, part, history, case):
    """replay (history, case) in a fresh interpreter; True when the case violates the property there"""
    from .core import jdefault
    d = os.path.join(OUT, ".cache", "confirm") if OUT == HERE else os.path.join(OUT, "confirm")
    os.makedirs(d, exist_ok=True)
    path = os.path.join(d, f"confirm-{os.getpid()}.json")
    with open(path, "w") as fh:
        json.dump({"property": prop, "part": part.name, "case": case, "history": history}, fh, default=jdefault)
    try:
        p = subprocess.run([sys.executable, "-u", "-m", "vf.runner", prop, "--replay", path], cwd=HERE, env=dict(os.environ),
                           capture_output=True, text=True, timeout=1800)
        return p.returncode == 1 and "VIOLATION" in p.stdout
    except subprocess.TimeoutExpired:
        return False
    finally:
        try:
            os.remove(path)
        except OSError:
            pass


def _eval(part, case):
    from .core import set_callform, digest
    try:
        set_callform(1 + int(digest(case)[:7], 16))
    except Exception:  # noqa: BLE001
        set_callform(1)
    return part.eval_case(case)


def _fails_after(part, history, case):
    """evaluate `history` (outcomes ignored) and then `case` in this process; True when `case` then violates the property"""
    from .core import Violation
    for h in history:
        try:
            _eval(part, h)
        except BaseException:  # noqa: BLE001
            pass
    try:
        _eval(part, case)
    except Violation:
        return True
    except Exception as e:  # noqa: BLE001
        return _from_library(e)
    return False


def _mentions_violation(e):
    from .core import Violation
    if isinstance(e, Violation):
        return True
    subs = getattr(e, "exceptions", None)
    if subs:
        return any(_mentions_violation(s) for s in subs)
    return False


def worker(jobfile):
    with open(jobfile) as f:
        job = json.load(f)
    t0 = time.time()
    res = {"job": job, "error": None}
    try:
        os.environ["VF_TIER"] = job.get("tier", "quick")       # strategies may scale rare expensive shapes with the tier
        mod = importlib.import_module(f"vf.props.{job['prop'].lower()}")
        if job["part"] == "__replays__":
            res.update(replay_files(job["prop"], mod, job["files"]))
        else:
            part = next(p for p in mod.PARTS if p.name == job["part"])
            ctx = Ctx(job["prop"], mod, part, job["tier"], job["seed"], job["shard"], job["nshards"])
            run_part(ctx, job["n"])
            res.update({
                "evaluations": ctx.evaluations,
                "digests": sorted(ctx.digests),
                "bulk_nontrivial": ctx.bulk_nontrivial,
                "classes": dict(ctx.classes),
                "samples": ctx.samples,
                "kf_hits": dict(ctx.kf_hits),
                "violations": ctx.violations,
                "inconclusive": ctx.inconclusive[:5],
                "exhaustive_domains": ctx.exhaustive_domains,
            })
    except BaseException as e:  # noqa: BLE001
        res["error"] = "".join(traceback.format_exception(type(e), e, e.__traceback__))[-4000:]
    res["wall_s"] = time.time() - t0
    from .core import jdefault
    tmp = job["out"] + ".tmp"
    with open(tmp, "w") as f:
        json.dump(res, f, default=jdefault)
    os.replace(tmp, job["out"])


def _run_history(part, rec):
    for h in rec.get("history", ()):
        try:
            _eval(part, h)
        except BaseException:  # noqa: BLE001
            pass


def replay_files(prop, mod, files):
    """Regression tier: committed replays. reg-* must pass; kf-* must still fail as the listed finding."""
    from .core import Violation, CaseTimeout
    out = {"evaluations": 0, "digests": [], "bulk_nontrivial": 0, "classes": {}, "samples": [], "kf_hits": {},
           "violations": [], "inconclusive": [], "exhaustive_domains": [], "kf_status": {}}
    known = load_known(prop)
    for path in files:
        with open(path) as f:
            rec = json.load(f)
        part = next((p for p in mod.PARTS if p.name == rec["part"]), None)
        if part is None or part.eval_case is None:
            raise RuntimeError(f"replay {path}: unknown part {rec.get('part')}")
        ctx = Ctx(prop, mod, part, "quick", 0, 0, 1)
        base = os.path.basename(path)
        out["evaluations"] += 1
        out["classes"]["replayed"] = out["classes"].get("replayed", 0) + 1
        _run_history(part, rec)
        try:
            ctx._guarded(part.eval_case, rec["case"])
            failed = None
        except Violation as v:
            failed = v
        except CaseTimeout:
            failed = Violation("does-not-return", f"call did not return within {part.timeout:.0f} s")
        except Exception as e:  # noqa: BLE001
            if _from_library(e):
                failed = Violation(f"raises:{type(e).__name__}", f"{type(e).__name__}: {str(e)[:200]} ({_where(e)})")
            else:
                raise
        if base.startswith("kf-"):
            fid = rec.get("finding")
            if failed is not None and ctx.classify(rec["case"], failed) == fid:
                out["kf_status"][fid] = "reproduced"
            elif failed is not None:
                out["violations"].append({"case": rec["case"], "tag": failed.tag, "msg": failed.msg, "part": rec["part"]})
            else:
                out["kf_status"][fid] = "stale"
        else:
            if failed is not None:
                out["violations"].append({"case": rec["case"], "tag": failed.tag, "msg": failed.msg, "part": rec["part"],
                                          "from_replay": path})
    _ = known
    return out


# ==================================================================================================
# Parent

def spawn(job):
    env = dict(os.environ)
    return subprocess.Popen([sys.executable, "-u", "-m", "vf.runner", "--worker", job["jobfile"]],
                            cwd=HERE, env=env, stdout=subprocess.DEVNULL, stderr=subprocess.DEVNULL,
                            start_new_session=True)


def run_check(prop, tier, seed, only=None, budget=None, jobs_max=None):
    from .core import jdefault, digest
    t0 = time.time()
    mod = importlib.import_module(f"vf.props.{prop.lower()}")
    rundir = os.path.join(HERE, ".cache", f"run-{os.getpid()}")
    os.makedirs(rundir, exist_ok=True)
    jobs = []
    rdir = os.path.join(HERE, "replays", prop)
    files = sorted(os.path.join(rdir, f) for f in os.listdir(rdir)) if os.path.isdir(rdir) else []
    files = [f for f in files if os.path.basename(f).startswith(("reg-", "kf-")) and f.endswith(".json")]
    if files and not only:
        jobs.append({"prop": prop, "part": "__replays__", "files": files, "tier": tier, "seed": seed, "shard": 0,
                     "nshards": 1, "n": len(files)})
    for pi, part in enumerate(mod.PARTS):
        if only and part.name not in only:
            continue
        nsh = part.quick_shards if tier == "quick" else part.shards
        n = part.quick if tier == "quick" else part.thorough
        if n <= 0 and part.kind in ("given", "machine"):
            continue
        if part.only_tier and part.only_tier != tier:
            continue
        for sh in range(nsh):
            jobs.append({"prop": prop, "part": part.name, "tier": tier, "shard": sh, "nshards": nsh, "n": n,
                         "seed": (seed * 1_000_003 + pi * 1009 + sh * 17 + (0 if tier == "quick" else 500_000)) % (2**62)})
    for i, j in enumerate(jobs):
        j["jobfile"] = os.path.join(rundir, f"job{i}.json")
        j["out"] = os.path.join(rundir, f"res{i}.json")
        with open(j["jobfile"], "w") as f:
            json.dump(j, f)
    budget = budget or float(os.environ.get("VERIF_BUDGET_S", 900 if tier == "quick" else 3 * 3600))
    maxp = jobs_max or int(os.environ.get("VERIF_JOBS", "16"))
    pending = list(jobs)
    running = []
    budget_exhausted = False
    while pending or running:
        while pending and len(running) < maxp:
            j = pending.pop(0)
            j["proc"] = spawn(j)
            running.append(j)
        time.sleep(0.05)
        for j in list(running):
            if j["proc"].poll() is not None:
                running.remove(j)
        if time.time() - t0 > budget:
            budget_exhausted = True
            for j in running:
                try:
                    os.killpg(j["proc"].pid, signal.SIGKILL)
                except OSError:
                    pass
            for j in running:
                j["proc"].wait()
                j["killed"] = True
            for j in pending:
                j["killed"] = True
            break
    # ---- merge
    evaluations = 0
    digs = set()
    bulk = 0
    classes = collections.Counter()
    samples = []
    kf_hits = collections.Counter()
    violations = []
    errors = []
    per_part = collections.OrderedDict()
    kf_status = {}
    exhaustive_domains = []
    inconclusive = []
    for j in jobs:
        if j.get("killed"):
            per_part.setdefault(j["part"], {"evaluations": 0, "wall_s": 0.0})["budget_exhausted"] = True
            continue
        if not os.path.exists(j["out"]):
            errors.append(f"job {j['part']}#{j['shard']} produced no result (exit {j['proc'].returncode})")
            continue
        with open(j["out"]) as f:
            r = json.load(f)
        if r.get("error"):
            errors.append(f"job {j['part']}#{j['shard']}:\n{r['error']}")
            continue
        evaluations += r["evaluations"]
        tagged = {f"{j['part']}:{d}" for d in r["digests"]}
        digs |= tagged
        bulk += r.get("bulk_nontrivial", 0)
        for k, v in r["classes"].items():
            classes[f"{j['part']}.{k}"] += v
        for s in r["samples"]:
            if sum(1 for x in samples if x["part"] == j["part"]) < 3:
                samples.append({"part": j["part"], "case": s})
        for k, v in r["kf_hits"].items():
            kf_hits[k] += v
        for v in r["violations"]:
            v.setdefault("part", j["part"])
            violations.append(v)
        kf_status.update(r.get("kf_status", {}))
        exhaustive_domains += r.get("exhaustive_domains", [])
        inconclusive += r.get("inconclusive", [])
        pp = per_part.setdefault(j["part"], {"evaluations": 0, "wall_s": 0.0})
        pp["evaluations"] += r["evaluations"]
        pp["wall_s"] = round(max(pp["wall_s"], r["wall_s"]), 2)
    for part, pp in per_part.items():
        pp["distinct_nontrivial"] = sum(1 for d in digs if d.startswith(part + ":"))
    fin = getattr(mod, "finalize", None)
    if fin is not None and not errors and not budget_exhausted:
        import inspect
        if len(inspect.signature(fin).parameters) >= 3:
            fv, fd = fin(tier, classes, {"kf_hits": dict(kf_hits), "parts": per_part})
        else:
            fv, fd = fin(tier, classes)
        violations += fv
        exhaustive_domains += fd
    # ---- report
    known = load_known(prop)
    lines = []
    rc = 0
    for e in known:
        st = kf_status.get(e["id"])
        hits = kf_hits.get(e["id"], 0)
        if st == "stale":
            lines.append(f"NOTE: known finding {e['id']} of {prop} no longer reproduces (stale entry)")
        else:
            lines.append(f"KNOWN-FINDING: property={prop} {e['id']}: {e['what']} (hits this run: {hits})")
    seen = set()
    vdir = os.path.join(OUT, "replays", prop)
    for v in violations:
        key = (v["part"], v["tag"])
        if key in seen:
            continue
        seen.add(key)
        os.makedirs(vdir, exist_ok=True)
        rec = {"property": prop, "part": v["part"], "case": v["case"], "tag": v["tag"], "message": v["msg"],
               "seed": seed, "tier": tier}
        if v.get("history"):
            rec["history"] = v["history"]       # cases to evaluate first, in the same process
        path = os.path.join(vdir, f"viol-{v['part']}-{digest(v['case'])}.json")
        with open(path, "w") as f:
            json.dump(rec, f, indent=1, default=jdefault)
        lines.append(f"VIOLATION property={prop} replay={path}")
        lines.append(f"  part={v['part']} tag={v['tag']} :: {v['msg'][:300]}")
        rc = 1
    if errors:
        for e in errors:
            sys.stderr.write("HARNESS ERROR: " + e + "\n")
        rc = 2 if rc == 0 else rc
    distinct = len(digs) + bulk
    rules = "; ".join(f"[{p.name}] {p.rule}" for p in mod.PARTS if p.rule)
    ev = {
        "property_id": prop, "tier": tier, "seed": seed, "level": "exploration",
        "coverage": {
            "evaluations": evaluations,
            "distinct_nontrivial": distinct,
            "rule": getattr(mod, "RULE", "") + (" || per part: " + rules if rules else ""),
            "samples": samples[:12],
            "classes": dict(sorted(classes.items())),
            "parts": per_part,
            "known_finding_hits": dict(kf_hits),
            "known_finding_status": kf_status,
            "exhaustive": bool(exhaustive_domains) and all(p.exhaustive for p in mod.PARTS),
            "exhaustive_domains": exhaustive_domains,
            "budget_exhausted": budget_exhausted,
            "inconclusive": inconclusive[:5],
            "technique": getattr(mod, "TECHNIQUE", "property-based testing (Hypothesis) against an explicit oracle"),
        },
        "assumptions": list(getattr(mod, "ASSUMPTIONS", [])),
        "wall_s": round(time.time() - t0, 2),
        "violations": len(seen),
    }
    if rc != 2:
        os.makedirs(os.path.join(OUT, "evidence"), exist_ok=True)
        with open(os.path.join(OUT, "evidence", f"{prop}.json"), "w") as f:
            json.dump(ev, f, indent=1, default=jdefault)
    for ln in lines:
        print(ln)
    print(f"{prop} {tier} seed={seed}: evaluations={evaluations} distinct_nontrivial={distinct} "
          f"violations={len(seen)} known_hits={dict(kf_hits)} wall={ev['wall_s']}s"
          + (" BUDGET-EXHAUSTED(inconclusive parts)" if budget_exhausted else ""))
    import shutil
    shutil.rmtree(rundir, ignore_errors=True)
    return rc


def do_replay(prop, path):
    from .core import Violation, CaseTimeout
    mod = importlib.import_module(f"vf.props.{prop.lower()}")
    with open(path) as f:
        rec = json.load(f)
    part = next(p for p in mod.PARTS if p.name == rec["part"])
    ctx = Ctx(prop, mod, part, "quick", 0, 0, 1)
    _run_history(part, rec)
    try:
        ctx._guarded(part.eval_case, rec["case"])
    except Violation as v:
        fid = ctx.classify(rec["case"], v)
        if fid:
            print(f"KNOWN-FINDING: property={prop} {fid} reproduced by {path}: {v}")
            return 0
        print(f"VIOLATION property={prop} replay={path}")
        print(f"  {v}")
        return 1
    except CaseTimeout:
        print(f"VIOLATION property={prop} replay={path}")
        print(f"  [does-not-return] call did not return within {part.timeout:.0f} s")
        return 1
    except Exception as e:  # noqa: BLE001
        if _from_library(e):
            print(f"VIOLATION property={prop} replay={path}")
            print(f"  unexpected {type(e).__name__}: {e} ({_where(e)})")
            return 1
        raise
    print(f"replay {path}: property {prop} holds on this case")
    return 0


def main(argv=None):
    ap = argparse.ArgumentParser()
    ap.add_argument("prop", nargs="?")
    ap.add_argument("--tier", choices=["quick", "thorough"])
    ap.add_argument("--replay")
    ap.add_argument("--worker")
    ap.add_argument("--parts", help="comma separated subset of parts (debugging)")
    ap.add_argument("--budget", type=float)
    a = ap.parse_args(argv)
    if a.worker:
        worker(a.worker)
        return 0
    if not a.prop:
        ap.error("property id required")
    prop = a.prop.upper()
    try:
        if a.replay:
            return do_replay(prop, a.replay)
        tier = a.tier or os.environ.get("VERIF_TIER") or "quick"
        if tier not in ("quick", "thorough"):
            tier = "quick"
        seed = int(os.environ.get("VERIF_SEED", "1") or "1")
        return run_check(prop, tier, seed, only=a.parts.split(",") if a.parts else None, budget=a.budget)
    except SystemExit:
        raise
    except BaseException as e:  # noqa: BLE001
        sys.stderr.write("HARNESS ERROR: " + "".join(traceback.format_exception(type(e), e, e.__traceback__)))
        return 2


if __name__ == "__main__":
    sys.exit(main())
