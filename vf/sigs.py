"""Shared signal strategies, the array-pair model and the container contract predicate."""
import numpy as np
from hypothesis import strategies as st

from .core import check, mk
from .lib import electrical_signal, optical_signal, gv

LENGTHS = [1, 2, 3, 4, 5, 7, 8, 13, 16, 17, 31, 32, 64, 127, 128, 255, 257, 1024]


def s_len(lmax=64, lmin=1):
    pool = [n for n in LENGTHS if lmin <= n <= lmax]
    return st.one_of(st.sampled_from(pool), st.integers(lmin, lmax))


FAMS = ["smallint", "unif", "gauss", "const", "spike", "lead0", "ramp", "alt", "periodic", "sorted", "sym"]


@st.composite
def s_arr(draw, n, dts=("i", "f", "c"), fams=FAMS, rows=None):
    """recipe of an ndarray with n samples (rows x n when rows)"""
    rec = {"fam": draw(st.sampled_from(fams)), "n": n, "seed": draw(st.integers(0, 2 ** 31 - 1)), "dt": draw(st.sampled_from(dts))}
    if rows:
        rec["rows"] = rows
    return rec


@st.composite
def s_signal(draw, n=None, cls=None, npol=None, dts=("i", "f", "c"), lmax=64, noise=None, fams=FAMS):
    """spec of a signal object: {'cls','npol','sig':recipe,'noise':recipe|None}"""
    if cls is None:
        cls = draw(st.sampled_from(["E", "O", "O"]))
    if cls == "E":
        npol = 1
    elif npol is None:
        npol = draw(st.sampled_from([1, 2]))
    if n is None:
        n = draw(s_len(lmax))
    rows = 2 if npol == 2 else None
    sig = draw(s_arr(n, dts, fams, rows))
    has_noise = draw(st.booleans()) if noise is None else noise
    nz = draw(s_arr(n, dts, ["smallint", "gauss", "unif", "const"], rows)) if has_noise else None
    return {"cls": cls, "npol": npol, "sig": sig, "noise": nz}


CLS = {"E": electrical_signal, "O": optical_signal}


class Model:
    """plain (signal, noise) array pair"""

    def __init__(self, cls, npol, s, n):
        self.cls, self.npol, self.s, self.n = cls, npol, s, n

    @property
    def N(self):
        return self.s.shape[-1]

    @property
    def total(self):
        return self.s if self.n is None else self.s + self.n


def build(spec):
    """-> (library object, Model) from a signal spec; the two hold separate copies of the arrays"""
    s = mk(spec["sig"])
    n = mk(spec["noise"])
    if n is not None:
        rt = np.result_type(s, n)
        s, n = s.astype(rt), n.astype(rt)
    cls = CLS[spec["cls"]]
    obj = cls(s.copy(), None if n is None else n.copy())
    return obj, Model(spec["cls"], spec["npol"], s, n)


def contract(obj, cls, npol, N=None, what="result"):
    """The container contract of C01."""
    C = CLS[cls] if isinstance(cls, str) else cls
    check(type(obj) is C, "wrong-class", f"{what}: {type(obj).__name__}, expected {C.__name__}")
    s = obj.signal
    check(isinstance(s, np.ndarray), "signal-not-ndarray", f"{what}: {type(s).__name__}")
    if C is optical_signal:
        check(obj.n_pol == npol, "wrong-n_pol", f"{what}: n_pol={obj.n_pol}, expected {npol}")
    if npol == 1:
        check(s.ndim == 1 and s.size >= 1, "bad-signal-shape", f"{what}: shape {s.shape} for one polarisation")
    else:
        check(s.ndim == 2 and s.shape[0] == 2 and s.shape[1] >= 1, "bad-signal-shape", f"{what}: shape {s.shape} for two polarisations")
    nz = obj.noise
    check(nz is None or (isinstance(nz, np.ndarray) and nz.shape == s.shape), "noise-shape-mismatch",
          f"{what}: noise shape {getattr(nz, 'shape', None)} vs signal {s.shape}")
    check(len(obj) == s.shape[-1] == obj.len(), "len-mismatch", f"{what}: len()={len(obj)} shape {s.shape}")
    if N is not None:
        check(len(obj) == N, "wrong-length", f"{what}: len {len(obj)}, expected {N}")


def same_model(obj, m, what="result", exact=True, tol=1e-9):
    contract(obj, m.cls, m.npol, m.N, what)
    check((obj.noise is None) == (m.n is None), "noise-presence", f"{what}: noise {'absent' if obj.noise is None else 'present'}, expected {'absent' if m.n is None else 'present'}")
    for nm, got, want in (("signal", obj.signal, m.s), ("noise", obj.noise, m.n)):
        if want is None:
            continue
        if exact:
            ok = got.shape == want.shape and np.array_equal(got, want, equal_nan=True)
        else:
            ok = got.shape == want.shape and np.allclose(got, want, rtol=tol, atol=tol * max(1.0, float(np.max(np.abs(want))) if want.size else 1.0), equal_nan=True)
        check(ok, f"{nm}-value-mismatch", lambda: f"{what}.{nm}: got {np.asarray(got).ravel()[:6]} want {np.asarray(want).ravel()[:6]}")


# --------------------------------------------------------------------------------------------------
# gv configurations (commensurate by construction)

@st.composite
def s_gv(draw, sps_max=128, with_extra=False, noncommensurate=False):
    sps = draw(st.one_of(st.sampled_from([1, 2, 3, 4, 5, 7, 8, 15, 16, 17, 32, 64, 128]), st.integers(1, sps_max)))
    sps = min(sps, sps_max)
    R = draw(st.one_of(st.sampled_from([1e9, 2.5e9, 10e9, 25e9, 40e9, 1e6, 1e11]), st.floats(6, 11).map(lambda e: float(round(10 ** e)))))
    form = draw(st.sampled_from(["sps_R", "sps_fs", "R_fs", "default"] + (["R_fs_nc", "fs_nc"] if noncommensurate else [])))
    cfg = {"sps": sps, "R": R, "form": form}
    if form.endswith("_nc"):
        cfg["frac"] = draw(st.floats(-0.45, 0.45))
    # a slot count N may be in force: "match" = N*sps equals the length of the signal under test (sps becomes a divisor of it),
    # "other" = some unrelated N, None = no N
    cfg["Nmode"] = draw(st.sampled_from([None, None, None, "match", "match", "other"]))
    # the slot rate as the number types a script hands over: float, Python int, numpy integer (rates taken from an integer array)
    cfg["Rtype"] = draw(st.sampled_from(["float", "float", "float", "int", "np.int64"]))
    if with_extra:
        cfg["wavelength"] = draw(st.one_of(st.none(), st.floats(1260e-9, 1650e-9)))
    return cfg


def apply_gv(cfg, n_samples=None):
    """configure the library's gv; returns (sps, R, fs) now in force. With n_samples and cfg['Nmode'] a slot count N is put in force too."""
    import warnings
    sps, R = cfg["sps"], cfg["R"]
    nmode = cfg.get("Nmode")
    if nmode == "match" and n_samples and not cfg["form"].endswith("_nc") and cfg["form"] != "default":
        if n_samples % sps:
            sps = max(d for d in range(1, min(n_samples, 128) + 1) if n_samples % d == 0)
        Nslots = n_samples // sps
    elif nmode == "other" and cfg["form"] != "default" and not cfg["form"].endswith("_nc"):
        Nslots = 1 + (int(R) + sps) % 37
    else:
        Nslots = None
    if cfg.get("Rtype") in ("int", "np.int64") and float(R).is_integer() and not cfg["form"].endswith("_nc"):
        R = int(R) if cfg["Rtype"] == "int" else np.int64(int(R))
    fs = R * sps
    kw = {}
    if cfg.get("wavelength"):
        kw["wavelength"] = cfg["wavelength"]
    if Nslots:
        kw["N"] = Nslots
    with warnings.catch_warnings():
        warnings.simplefilter("ignore")
        gv.clean()
        if cfg["form"] == "sps_R":
            gv(sps=sps, R=R, **kw)
        elif cfg["form"] == "sps_fs":
            gv(sps=sps, fs=fs, **kw)
        elif cfg["form"] == "R_fs":
            gv(R=R, fs=fs, **kw)
        elif cfg["form"] == "R_fs_nc":      # fs/R not an integer: sps is rounded, the fs passed stays in force
            fs = R * max(0.6, sps + cfg["frac"])
            gv(R=R, fs=fs, **kw)
            return int(np.round(fs / R)), R, fs
        elif cfg["form"] == "fs_nc":        # fs alone against the default slot rate
            fs = 1e9 * max(0.6, sps + cfg["frac"])
            gv(fs=fs, **kw)
            return int(np.round(fs / 1e9)), 1e9, fs
        else:
            if kw:
                gv(**kw)
            return 16, 1e9, 16e9
    return sps, R, fs
