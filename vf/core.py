"""Shared primitives for the property checks: violations, library-call wrappers, array recipes,
no-mutation / no-alias snapshots, digests.  Everything here is harness side; nothing is imported
from the code under test except through `vf.lib` (which pins the tree)."""
import hashlib
import json
import traceback
import warnings

import numpy as np


class Violation(AssertionError):
    """The oracle of a property rejected what the code under test did."""

    def __init__(self, tag, msg="", data=None):
        super().__init__(f"[{tag}] {msg}")
        self.tag = tag
        self.msg = msg
        self.data = data or {}


class CaseTimeout(BaseException):
    """Raised by the watchdog inside a call into the code under test."""


def check(cond, tag, msg="", data=None):
    if not cond:
        if callable(msg):
            msg = msg()
        raise Violation(tag, msg, data)


# Call-form variation. The documented API (parameter names and order at the pinned commit, vf/api_names.json) allows every argument after
# the first to be passed by position or by keyword. Which of the two is used for the trailing arguments of each library call is derived
# from a per-case number (set by the runner from the case digest), so both forms - and mixtures - occur for every function over a run.
import json as _json
import os as _os
_API = _json.load(open(_os.path.join(_os.path.dirname(_os.path.abspath(__file__)), "api_names.json")))
_CALLFORM = [0]


def set_callform(n):
    _CALLFORM[0] = int(n)


def _np_floats(fn, a, k, cf):
    """one case in three: every plain Python float handed to a library function becomes the equal numpy.float64 (a float subclass - what an
    element of an array, np.linspace or a numpy reduction is); the values are identical, so is everything the properties promise"""
    if cf % 3 or not (getattr(fn, "__module__", "") or "").startswith("opticomlib"):
        return a, k
    import numpy as _np
    return tuple(_np.float64(v) if type(v) is float else v for v in a), {n: (_np.float64(v) if type(v) is float else v) for n, v in k.items()}


def _reform(fn, a, k):
    cf = _CALLFORM[0]
    if cf:
        a, k = _np_floats(fn, a, k, cf)
    if not cf or len(a) < 2:
        return a, k
    mod = getattr(fn, "__module__", "") or ""
    names = _API.get(f"{mod.split('.')[-1]}.{getattr(fn, '__name__', '')}")
    if not names or len(a) > len(names):
        return a, k
    keep = 1 + (cf + len(a) * 7 + len(names)) % len(a)          # number of leading arguments left positional (1 .. len(a))
    if keep == len(a) or any(nm in k for nm in names[keep:len(a)]):
        return a, k
    k = dict(k)
    for nm, v in zip(names[keep:len(a)], a[keep:]):
        k[nm] = v
    return a[:keep], k


def lib(fn, *a, **k):
    """Call into the code under test where the property says the call must succeed."""
    a, k = _reform(fn, a, k)
    try:
        return fn(*a, **k)
    except (Violation, CaseTimeout):
        raise
    except Exception as e:  # noqa: BLE001 - by contract: any exception here is a property failure
        tb = traceback.extract_tb(e.__traceback__)
        where = next((f"{f.filename.split('/')[-1]}:{f.lineno}" for f in reversed(tb) if "opticomlib" in f.filename), "?")
        raise Violation(f"raises:{type(e).__name__}", f"{getattr(fn, '__name__', fn)} raised {type(e).__name__}: {str(e)[:200]} at {where}") from None


def raises(exc, fn, *a, tag=None, **k):
    """The property says this call is rejected with `exc` (a class or tuple)."""
    name = getattr(fn, "__name__", str(fn))
    a, k = _reform(fn, a, k)
    try:
        r = fn(*a, **k)
    except (Violation, CaseTimeout):
        raise
    except exc:
        return True
    except Exception as e:  # noqa: BLE001
        raise Violation(tag or f"wrong-exception:{name}", f"{name} raised {type(e).__name__} ({str(e)[:120]}), expected {exc}") from None
    raise Violation(tag or f"not-rejected:{name}", f"{name} returned {type(r).__name__} instead of raising {exc}")


# --------------------------------------------------------------------------------------------------
# JSON helpers (cases are plain JSON so that replay files need no pickling)

def jdefault(o):
    if isinstance(o, (np.integer,)):
        return int(o)
    if isinstance(o, (np.floating,)):
        return float(o)
    if isinstance(o, (np.bool_,)):
        return bool(o)
    if isinstance(o, complex):
        return {"re": o.real, "im": o.imag}
    if isinstance(o, np.ndarray):
        if np.iscomplexobj(o):
            return {"re": o.real.tolist(), "im": o.imag.tolist()}
        return o.tolist()
    if isinstance(o, (set, frozenset)):
        return sorted(o)
    return repr(o)


def canon(case):
    return json.dumps(case, sort_keys=True, default=jdefault, separators=(",", ":"))


def digest(case):
    return hashlib.sha1(canon(case).encode()).hexdigest()[:16]


# --------------------------------------------------------------------------------------------------
# Array recipes.  A recipe is a JSON dict; `mk(recipe)` builds the ndarray deterministically.
#   {"lit": [...], "dt": "i|f|c"}                     literal values (complex as [re, im] pairs)
#   {"fam": ..., "n": N, "seed": s, "dt": "i|f|c", "scale": x, "rows": r}
# Families: smallint, unif, gauss, const, spike, lead0 (leading zeros), ramp

DT = {"i": np.int64, "f": np.float64, "c": np.complex128}


def mk(rec):
    if rec is None:
        return None
    dt = DT[rec.get("dt", "f")]
    if "lit" in rec:
        if rec.get("dt") == "c":
            a = np.array(rec["lit"], dtype=float).astype(complex)
            if "im" in rec:
                a = a + 1j * np.array(rec["im"], dtype=float)
        else:
            a = np.array(rec["lit"], dtype=dt)
        return a
    n = int(rec["n"])
    rows = rec.get("rows")
    shape = (n,) if not rows else (int(rows), n)
    rs = np.random.RandomState(int(rec.get("seed", 0)) % (2**32))
    fam = rec.get("fam", "gauss")
    scale = rec.get("scale", 1.0)

    def base(kind):
        if kind == "smallint":
            return rs.randint(-4, 5, size=shape).astype(float)
        if kind == "unif":
            return rs.uniform(-1, 1, size=shape)
        if kind == "gauss":
            return rs.standard_normal(size=shape)
        if kind == "const":
            return np.full(shape, float(rs.randint(-3, 4)) or 1.0)
        if kind == "ramp":
            return np.broadcast_to(np.arange(n, dtype=float), shape).copy()
        if kind == "spike":
            a = np.zeros(shape)
            a[..., rs.randint(0, n)] = 1.0 + rs.randint(0, 3)
            return a
        if kind == "lead0":
            a = rs.standard_normal(size=shape)
            a[..., : min(n, 1 + rs.randint(1, 4))] = 0.0
            return a
        # structured data: alternating, periodic, sorted, symmetric (data-dependent branches that random data never takes)
        if kind == "alt":
            return np.broadcast_to((-1.0) ** np.arange(n) * (1 + rs.randint(0, 3)), shape).copy()
        if kind == "periodic":
            p_ = int(rs.randint(1, max(2, min(n, 9))))
            base_ = rs.randint(-3, 4, size=shape[:-1] + (p_,)).astype(float)
            reps = -(-n // p_)
            return np.concatenate([base_] * reps, axis=-1)[..., :n]
        if kind == "sorted":
            return np.sort(rs.standard_normal(size=shape), axis=-1)
        if kind == "sym":
            a = rs.standard_normal(size=shape)
            return a + a[..., ::-1]
        raise ValueError(kind)

    re = base(fam)
    if rec.get("dt") == "c":
        im = base(fam if fam not in ("const", "ramp") else "smallint")
        a = (re + 1j * im) * scale
    elif rec.get("dt") == "i":
        a = np.rint(re * (scale if scale != 1.0 else (3 if fam in ("unif", "gauss", "lead0") else 1))).astype(np.int64)
    else:
        a = re * scale
    return a


# --------------------------------------------------------------------------------------------------
# Operand protection

class Guard:
    """Snapshot + write-protect a set of arrays; later assert they are bit-identical and that no
    result array shares memory with them."""

    def __init__(self, protect=True):
        # protect=False: snapshot only (the buffers stay writeable, as a caller's arrays normally are)
        self.items = []
        self.protect = protect

    def add(self, name, arr):
        if arr is None or not isinstance(arr, np.ndarray):
            return arr
        snap = (arr.dtype.str, arr.shape, arr.tobytes())
        try:
            if self.protect:
                arr.setflags(write=False)
        except ValueError:
            pass
        self.items.append((name, arr, snap))
        return arr

    def add_signal(self, name, obj):
        self.add(name + ".signal", getattr(obj, "signal", None))
        self.add(name + ".noise", getattr(obj, "noise", None))
        return obj

    def add_bits(self, name, obj):
        self.add(name + ".data", getattr(obj, "data", None))
        return obj

    def verify(self, tag="operand-mutated"):
        for name, arr, snap in self.items:
            now = (arr.dtype.str, arr.shape, arr.tobytes())
            check(now == snap, tag, f"{name} changed by the call")

    def no_alias(self, result_arrays, tag="result-aliases-operand"):
        for rname, r in result_arrays:
            if r is None or not isinstance(r, np.ndarray):
                continue
            for name, arr, _ in self.items:
                check(not np.shares_memory(r, arr), tag, f"{rname} shares memory with {name}")

    def release(self):
        for _, arr, _ in self.items:
            try:
                arr.setflags(write=True)
            except ValueError:
                pass


def close(a, b, rtol=0.0, atol=0.0):
    a = np.asarray(a)
    b = np.asarray(b)
    if a.shape != b.shape:
        return False
    if not (np.all(np.isfinite(a)) and np.all(np.isfinite(b))):
        return bool(np.array_equal(a, b, equal_nan=False))
    return bool(np.all(np.abs(a - b) <= atol + rtol * np.abs(b)))


def maxerr(a, b):
    a = np.asarray(a)
    b = np.asarray(b)
    if a.shape != b.shape:
        return float("inf")
    if a.size == 0:
        return 0.0
    d = np.abs(a - b)
    if not np.all(np.isfinite(d)):
        return float("inf")
    return float(d.max())


def relclose(a, b, tol):
    """max|a-b| <= tol * max(1, max|b|)"""
    b = np.asarray(b)
    ref = max(1.0, float(np.max(np.abs(b))) if b.size else 1.0)
    return maxerr(a, b) <= tol * ref
