"""C14 - the global grid stays consistent over any call history; devices are pure and seedable."""
import contextlib
import io
import warnings

import numpy as np
from hypothesis import strategies as st
from hypothesis.stateful import RuleBasedStateMachine, rule, precondition
from numpy.fft import fftfreq, fftshift
from scipy.constants import c as CL

from ..core import check, lib, Violation, digest
from ..lib import gv, T, D, U, OOK, PPM, LAB, electrical_signal, optical_signal, binary_sequence, eye
from ..runner import Part

RULE = ("stateful (Hypothesis RuleBasedStateMachine) histories on the module singleton gv: configure in every argument form with commensurate rates, optional "
        "wavelength / N / custom keywords, clean(), and calls of ~35 public device/codec/DSP/utility functions on a pool of shared write-protected inputs, with "
        "seeded repeats; invariant after every step (grid self-consistency for the values now in force, custom attributes, defaults after clean) and around "
        "every call (gv snapshot, argument bytes, aliasing, bit-identical repeats); non-trivial: >=2 reconfigurations one of which omits N after N was set, "
        "or clean() followed by calls, or >=3 distinct blocks called")
ASSUMPTIONS = [
    "histories are sampled up to 30 (quick) / 60 (thorough) steps",
    "custom keyword values are non-callables (clean() identifies custom attributes as the non-callable ones)",
    "rates are commensurate by construction (fs/R is an integer); an omitted wavelength is not required to persist (the signature documents a default)",
]
RESERVED = ["sps", "R", "fs", "dt", "wavelength", "f0", "N", "t", "dw", "w"]


def rel(a, b, tol=1e-12):
    return abs(a - b) <= tol * max(abs(a), abs(b), 1e-300)


def gv_snapshot():
    out = {}
    for k, v in gv.__dict__.items():
        out[k] = ("nd", v.dtype.str, v.shape, v.tobytes()) if isinstance(v, np.ndarray) else ("v", repr(v))
    return out


# --------------------------------------------------------------------------------------------------
# flatten results into named arrays

EYE_FIELDS = ("mu0", "mu1", "s0", "s1", "threshold", "t_left", "t_right", "t_opt", "i")


def flatten(r, name="out"):
    if isinstance(r, (electrical_signal, optical_signal)):
        return [(name + ".signal", r.signal)] + ([(name + ".noise", r.noise)] if r.noise is not None else [])
    if isinstance(r, binary_sequence):
        return [(name + ".data", r.data)]
    if isinstance(r, eye):
        return [(name + "." + k, np.asarray(getattr(r, k), dtype=float)) for k in EYE_FIELDS if getattr(r, k, None) is not None] + \
               [(name + ".y", np.asarray(r.y))]
    if isinstance(r, np.ndarray):
        return [(name, r)]
    if isinstance(r, (tuple, list)):
        out = []
        for i, x in enumerate(r):
            out += flatten(x, f"{name}[{i}]")
        return out
    if isinstance(r, (int, float, complex, np.number, bool, np.bool_)):
        return [(name, np.asarray(r))]
    if isinstance(r, str):
        return [(name, np.frombuffer(r.encode(), dtype=np.uint8))]
    if r is None:
        return []
    return [(name, np.asarray(repr(r)))]


def sig_bytes(flat):
    return [(n, a.dtype.str, a.shape, a.tobytes()) for n, a in flat]


# --------------------------------------------------------------------------------------------------
# the pool of shared inputs, sized to the current sps

class Pool:
    def __init__(self, seed, sps):
        rs = np.random.RandomState(seed)
        self.sps = sps
        nb = 32
        self.bits = rs.randint(0, 2, nb).astype(np.uint8)
        self.bits[:4] = [0, 1, 1, 0]
        n = nb * sps
        wave = np.kron(self.bits, np.ones(sps)) * 0.8 + 0.1
        self.e = electrical_signal(wave + 0.0, 0.02 * rs.standard_normal(n))
        self.e_clean = electrical_signal(wave.copy())
        self.x1 = optical_signal(0.1 * (rs.standard_normal(n) + 1j * rs.standard_normal(n)), 0.01 * (rs.standard_normal(n) + 1j * rs.standard_normal(n)))
        self.x2 = optical_signal(0.1 * (rs.standard_normal((2, n)) + 1j * rs.standard_normal((2, n))), n_pol=2)
        self.u = electrical_signal(rs.uniform(-3, 3, n))
        self.ua = rs.uniform(-3, 3, n)
        sym = rs.randint(0, 4, nb // 4)
        cw = np.zeros(nb, dtype=np.uint8)
        cw[np.arange(nb // 4) * 4 + sym] = 1
        self.cw = binary_sequence(cw)
        self.cw_noisy = binary_sequence(cw ^ (rs.uniform(size=nb) < 0.2).astype(np.uint8))
        self.ppm_wave = electrical_signal(np.kron(cw, np.ones(sps)) * 0.9 + 0.05, 0.02 * rs.standard_normal(n))
        self.eye = eye(mu0=0.1, mu1=0.9, s0=0.03, s1=0.05)
        self.tvec = np.arange(n, dtype=float) / 16e9
        self.arrays = []
        self.bound = []      # (object, attribute, array) - the attribute must keep pointing at the very same array
        for nm in ("e", "e_clean", "x1", "x2", "u", "ppm_wave"):
            o = getattr(self, nm)
            self.arrays += [(nm + ".signal", o.signal)] + ([(nm + ".noise", o.noise)] if o.noise is not None else [])
            self.bound += [(nm, o, "signal", o.signal), (nm, o, "noise", o.noise)]
        for nm in ("cw", "cw_noisy"):
            self.bound.append((nm, getattr(self, nm), "data", getattr(self, nm).data))
        self.arrays += [("bits", self.bits), ("ua", self.ua), ("cw", self.cw.data), ("cw_noisy", self.cw_noisy.data), ("tvec", self.tvec)]
        self.snap = [(n_, a.dtype.str, a.shape, a.tobytes()) for n_, a in self.arrays]
        for _, a in self.arrays:
            a.setflags(write=False)

    def verify(self, block):
        for nm, o, attr, arr in self.bound:
            check(getattr(o, attr) is arr, "argument-mutated", f"{block} re-bound {nm}.{attr} of a shared input object")
        for (n_, a), s in zip(self.arrays, self.snap):
            check((n_, a.dtype.str, a.shape, a.tobytes()) == s, "argument-mutated", f"{block} changed shared input {n_}")

    def no_alias(self, block, flat):
        for rn, r in flat:
            if not isinstance(r, np.ndarray) or r.size == 0:
                continue
            for n_, a in self.arrays:
                check(not np.shares_memory(r, a), "output-aliases-input", f"{block}: {rn} shares memory with shared input {n_}")


def quiet(fn):
    def w(*a, **k):
        with contextlib.redirect_stdout(io.StringIO()):
            return fn(*a, **k)
    return w


BW = lambda: 0.3 * gv.fs  # noqa: E731
# an ABSOLUTE cutoff that stays the same number while fs moves inside a decade (0.03..0.3 fs): the same (n, BW) arguments are then met under
# several sampling rates in one history - a filter design memoised without fs in its key would be reused on the wrong grid (round 6, C14-r6s1)
BWq = lambda: float(10.0 ** np.floor(np.log10(0.3 * gv.fs)))  # noqa: E731

# name -> (callable(pool), stochastic?, rng-sensitive?, weight)
BLOCKS = {
    "DAC_nrz": (lambda p: D.DAC(p.bits, Vout=2.0, bias=-1.0), False, False),
    "DAC_gauss": (lambda p: D.DAC(p.bits, pulse_shape="gaussian", m=2), False, False),
    "DAC_bs": (lambda p: D.DAC(p.cw, pulse_shape="rz"), False, False),
    "LASER": (lambda p: D.LASER(p.tvec, 3.0, 1e6, None, 0.0), True, True),
    "PM": (lambda p: D.PM(p.x1, p.u, 4.0), False, False),
    "PM_arr": (lambda p: D.PM(p.x2, p.ua, 4.0), False, False),
    "MZM": (lambda p: D.MZM(p.x1, p.u, 1.0, 4.0, 1.0, 20.0), False, False),
    "MZM_2pol": (lambda p: D.MZM(p.x2, p.ua, 0.0, 4.0, 0.0, 30.0, "y"), False, False),
    "BPF": (lambda p: D.BPF(p.x1, BW()), False, False),
    "BPF_2pol": (lambda p: D.BPF(p.x2, BW(), 2), False, False),
    "EDFA": (lambda p: D.EDFA(p.x1, 15.0, 5.0), True, True),
    "EDFA_bw": (lambda p: D.EDFA(p.x2, 10.0, 4.0, BW()), True, True),
    "DM": (lambda p: D.DM(p.x1, 50.0), False, False),
    "DM_retH": (lambda p: D.DM(p.x2, -20.0, True), False, False),
    "FIBER_lin": (lambda p: D.FIBER(p.x2, 10.0, 0.2, -20.0, 0.1, 0.0), False, False),
    "FIBER_nl": (lambda p: D.FIBER(p.x1, 5.0, 0.2, -20.0, 0.0, 2.0, 0.05), False, False),
    "LPF": (lambda p: D.LPF(p.e, BW()), False, False),
    "LPF_arr": (lambda p: D.LPF(p.ua, BW(), 2, None, True), False, False),
    "PD": (lambda p: D.PD(p.x1, BW(), 0.8, 300.0, 50.0, "all"), True, True),
    "PD_2pol": (lambda p: D.PD(p.x2, BW(), 1.0, 300.0, 50.0, "thermal-shot", 1e-8, 3.0), True, True),
    "PD_ase_shot": (lambda p: D.PD(p.x1, BW(), 0.7, 300.0, 50.0, "ASE-shot", 1e-8), True, True),
    "PD_ase_thermal": (lambda p: D.PD(p.x1, BW(), 0.7, 300.0, 50.0, "ase-thermal"), True, True),
    "LPF_q": (lambda p: D.LPF(p.e, BWq()), False, False),
    "LPF_q_n2": (lambda p: D.LPF(p.ua, BWq(), 2, None, True), False, False),
    "BPF_q": (lambda p: D.BPF(p.x2, BWq()), False, False),
    "PD_q": (lambda p: D.PD(p.x1, BWq(), 0.8, 300.0, 50.0, "thermal-only"), True, True),
    "EDFA_q": (lambda p: D.EDFA(p.x1, 10.0, 4.0, BWq()), True, True),
    "DAC_q": (lambda p: D.DAC(p.bits, 0.0, 1.0, "nrz", BWq()), False, False),
    "MZM_q": (lambda p: D.MZM(p.x1, p.u, 1.0, 4.0, 1.0, 20.0, "x", BWq()), False, False),
    "ook.DSP_q": (lambda p: OOK.DSP(p.e, BWq()), True, False),
    "ADC": (lambda p: D.ADC(p.e, None, 4, "n"), False, False),
    "ADC_v": (lambda p: D.ADC(p.ua, None, 3), False, False),
    "GET_EYE": (lambda p: D.GET_EYE(p.e, 64), True, False),
    "SAMPLER": (lambda p: D.SAMPLER(p.e, gv.sps // 2), False, False),
    "FBG": (quiet(lambda p: D.FBG(p.x1[:256] if len(p.x1) >= 256 else p.x1, fc=gv.f0, vdneff=1e-4, kL=2.0, print_params=False, retH=True)), False, False),
    "FBG_fixed": (quiet(lambda p: D.FBG(p.x1[:256] if len(p.x1) >= 256 else p.x1, fc=193.4e12, vdneff=1e-4, kL=2.0, print_params=False, retH=True)), False, False),
    "PRBS": (lambda p: D.PRBS(9, 100, 77, True), False, False),
    "ook.DSP": (lambda p: OOK.DSP(p.e), True, False),
    "ook.THRESHOLD_EST": (lambda p: OOK.THRESHOLD_EST(p.eye), False, False),
    "ook.BER_counter": (lambda p: OOK.BER_analizer("counter", Tx=p.cw, Rx=p.cw_noisy), False, False),
    "ook.BER_est": (lambda p: OOK.BER_analizer("estimator", eye_obj=p.eye), False, False),
    "ook.theory_BER": (lambda p: OOK.theory_BER(np.array([1.0, 2.0]), 0.2, 0.3), False, False),
    "ppm.ENCODER": (lambda p: PPM.PPM_ENCODER(p.bits, 4), False, False),
    "ppm.DECODER": (lambda p: PPM.PPM_DECODER(p.cw, 4), False, False),
    "ppm.HDD": (lambda p: PPM.HDD(p.cw_noisy, 4), True, False),
    "ppm.SDD": (lambda p: PPM.SDD(p.ppm_wave, 4), False, False),
    "ppm.DSP_soft": (lambda p: PPM.DSP(p.ppm_wave, 4, "soft"), False, False),
    "ppm.DSP_hard": (lambda p: PPM.DSP(p.ppm_wave, 4, "hard", 0.5), True, False),
    "ppm.BER_est": (lambda p: PPM.BER_analizer("estimator", eye_obj=p.eye, M=4, decision="hard"), False, False),
    "lab.SYNC": (lambda p: LAB.SYNC(electrical_signal(np.roll(np.tile(np.kron(p.bits, np.ones(gv.sps)), 3), 5)), p.bits), False, False),
    "lab.GET_EYE_v2": (lambda p: LAB.GET_EYE_v2(p.e, p.bits, 32), False, False),
    "utils.spectral": (lambda p: (U.phase(np.exp(1j * p.ua)), U.tau_g(np.exp(1j * np.cumsum(p.ua) * 0.01), gv.fs), U.dispersion(np.exp(1j * np.cumsum(p.ua) * 0.01), gv.fs, gv.f0),
                                  U.norm(np.abs(p.ua) + 1), U.nearest(p.ua, 0.3), U.gaus(p.ua, 0.1, 2.0), U.idb(p.ua), U.idbm(p.ua), U.dbm(p.ua ** 2 + 1)), False, False),
    "typing.apply": (lambda p: (p.e.apply(np.cumsum), p.x2.apply(np.roll, 3, axis=-1), p.x1.abs("noise"), p.e.phase(), p.x1.t(), p.e("w")("t"), abs(p.e.power("signal"))), False, False),
    "utils": (lambda p: (U.db(p.ua ** 2 + 1), U.Q(p.ua), U.dec2bin(37, 8), U.str2array("1 2;3 4"), U.shortest_int(p.ua, 50), U.rcos(p.ua, 0.5, 1.0), U.si(gv.fs, "Hz")), False, False),
    "typing": (lambda p: (p.x2("w", True), p.e[3:17:2], p.x1 + p.x1, p.e * 2.0, p.e > 0.5, p.x2.power(), p.e.w(True), p.x1.copy()), False, False),
}
SLOW = {"GET_EYE", "ook.DSP", "ook.DSP_q", "FBG", "FBG_fixed", "FIBER_nl"}
MIN_SPS = {"DAC_gauss": 2, "GET_EYE": 4, "ook.DSP": 4, "ook.DSP_q": 4, "lab.GET_EYE_v2": 4}
EVEN_SPS = {"lab.GET_EYE_v2"}      # its +-5% window is centred on a sample only for even sps (otherwise it holds no sample at all)   # documented / structural domain of the block (C05: Gaussian DAC for sps >= 2; eye needs samples per slot)
BLOCK_NAMES = sorted(BLOCKS)


class Interp:
    """executes a history step by step against the real gv and asserts the invariants"""

    def __init__(self):
        warnings.simplefilter("ignore")
        gv.clean()
        self.custom = {}
        self.N = None
        self.pools = {}
        self.cache = {}
        self.stats = {"reconf": 0, "omitN_after_N": 0, "clean_then_call": 0, "blocks": set(), "after_clean": False, "steps": 0}
        self.invariant("initial")

    def pool(self, seed):
        key = (seed, gv.sps)
        if key not in self.pools:
            self.pools[key] = Pool(seed, gv.sps)
        return self.pools[key]

    # ---- invariant --------------------------------------------------------------------------
    def invariant(self, after):
        d = gv.__dict__
        sps = d.get("sps")
        check(isinstance(sps, (int, np.integer)) and not isinstance(sps, bool) and sps >= 1, "sps-not-positive-int", f"after {after}: sps={sps!r}")
        check(rel(gv.fs, gv.R * gv.sps), "fs!=R*sps", f"after {after}: fs={gv.fs} R={gv.R} sps={gv.sps}")
        check(rel(gv.dt, 1 / gv.fs), "dt!=1/fs", f"after {after}: dt={gv.dt} fs={gv.fs}")
        check(rel(gv.f0, CL / gv.wavelength), "f0!=c/wavelength", f"after {after}: f0={gv.f0} wavelength={gv.wavelength}")
        if gv.N is not None:
            M = gv.N * gv.sps
            check(isinstance(gv.t, np.ndarray) and isinstance(gv.w, np.ndarray), "grid-missing-with-N", f"after {after}")
            check(len(gv.t) == M and len(gv.w) == M, "grid-length!=N*sps", f"after {after}: N={gv.N} sps={gv.sps} but len(t)={len(gv.t)} len(w)={len(gv.w)}")
            check(np.allclose(gv.w, 2 * np.pi * fftshift(fftfreq(M)) * gv.fs, rtol=1e-12, atol=1e-9 * gv.fs / M), "w-grid-stale", f"after {after}")
            check(rel(gv.dw, 2 * np.pi * gv.fs / M), "dw-stale", f"after {after}: dw={gv.dw}")
            check(gv.t[0] == 0 and (M == 1 or rel(gv.t[-1], M * gv.dt, 1e-9)), "t-grid-stale", f"after {after}: t[-1]={gv.t[-1]} expected {M * gv.dt}")
        else:
            check(gv.t is None and gv.w is None and gv.dw is None, "grid-present-without-N", f"after {after}")
        check(gv.N == self.N, "N-not-in-force", f"after {after}: gv.N={gv.N} expected {self.N}")
        for k, v in self.custom.items():
            check(k in d, "custom-attribute-lost", f"after {after}: {k}")
            got = d[k]
            same = np.array_equal(got, v) if isinstance(v, np.ndarray) else (got == v)
            check(bool(same), "custom-attribute-changed", f"after {after}: {k}={got!r} expected {v!r}")
        extra = set(d) - set(RESERVED) - set(self.custom)
        check(not extra, "unexpected-gv-attribute", f"after {after}: {sorted(extra)}")

    # ---- steps -------------------------------------------------------------------------------
    def apply(self, step):
        self.stats["steps"] += 1
        k = step["op"]
        if k == "configure":
            self.configure(step)
        elif k == "clean":
            lib(gv.clean)
            self.custom = {}
            self.N = None
            fresh = T.global_variables()
            for f_ in RESERVED:
                a, b = getattr(gv, f_), getattr(fresh, f_)
                check((a is None and b is None) or a == b, "clean-did-not-restore-default", f"{f_}={a!r} default {b!r}")
            self.stats["after_clean"] = True
            self.invariant("clean()")
        elif k == "call":
            self.call(step)
        else:
            raise ValueError(k)

    def configure(self, s):
        form = s["form"]
        sps, R = s["sps"], s["R"]
        cur_sps, cur_R = gv.sps, gv.R
        kw = {}
        if form == "sps_R":
            kw.update(sps=sps, R=R)
            exp = (sps, R, R * sps)
        elif form == "sps_fs":
            kw.update(sps=sps, fs=R * sps)
            exp = (sps, R, R * sps)
        elif form == "R_fs":
            kw.update(R=R, fs=R * sps)
            exp = (sps, R, R * sps)
        elif form == "sps":
            kw.update(sps=sps)
            exp = (sps, cur_R, cur_R * sps)
        elif form == "R":
            kw.update(R=R)
            exp = (cur_sps, R, R * cur_sps)
        elif form == "fs":
            kw.update(fs=cur_R * sps)
            exp = (sps, cur_R, cur_R * sps)
        else:
            exp = (cur_sps, cur_R, cur_R * cur_sps)
        if s.get("float_sps") and "sps" in kw:
            kw["sps"] = float(kw["sps"])
        if s.get("wavelength") is not None:
            kw["wavelength"] = s["wavelength"]
        if s.get("N") is not None:
            kw["N"] = s["N"]
            self.N = s["N"]
        elif self.N is not None:
            self.stats["omitN_after_N"] += 1
        cust = {}
        for k, v in (s.get("custom") or {}).items():
            cust[k] = np.array(v["arr"]) if isinstance(v, dict) else v
        kw.update(cust)
        # the documented signature gv(sps, R, fs, wavelength, N, **kargs) also takes its reserved arguments by position
        pos = []
        if s.get("pos") and ("wavelength" in kw or "N" not in kw):
            order = ["sps", "R", "fs", "wavelength", "N"]
            last = max((i for i, nm in enumerate(order) if nm in kw), default=-1)
            if last >= 0 and all(nm in kw or nm in ("sps", "R", "fs") for nm in order[:last + 1]):
                pos = [kw.pop(nm, None) for nm in order[:last + 1]]
        r = lib(gv, *pos, **kw)
        check(r is gv, "configure-does-not-return-gv", "")
        self.custom.update(cust)
        self.stats["reconf"] += 1
        check(gv.sps == exp[0] and rel(gv.R, exp[1]) and rel(gv.fs, exp[2]), "explicit-values-not-in-force",
              f"gv({', '.join(f'{a}={b!r}' for a, b in kw.items() if a in ('sps', 'R', 'fs'))}) -> sps={gv.sps} R={gv.R} fs={gv.fs}, expected {exp}")
        if s.get("wavelength") is not None:
            check(gv.wavelength == s["wavelength"], "explicit-values-not-in-force", f"wavelength={gv.wavelength}")
        self.invariant(f"gv({len(pos)} positional, {', '.join(sorted(kw))})")

    def call(self, s):
        name = s["block"]
        if gv.sps < MIN_SPS.get(name, 1) or (name in EVEN_SPS and gv.sps % 2):
            name = "DAC_nrz"
        if name == "FBG_fixed" and abs(gv.f0 - 193.4e12) > 0.2 * gv.fs:
            name = "FBG"                  # a grating centred outside the simulated band is not a meaningful call
        fn, stochastic, rng_sensitive = BLOCKS[name]
        p = self.pool(s["pool"])
        before = gv_snapshot()
        seed = s["seed"]
        np.random.seed(seed)
        out = lib(fn, p)
        flat = flatten(out)
        check(gv_snapshot() == before, "block-modified-gv", f"{name} changed gv: {[k for k in set(before) | set(gv.__dict__) if before.get(k) != gv_snapshot().get(k)]}")
        p.verify(name)
        p.no_alias(name, flat)
        sb = sig_bytes(flat)
        # the caller owns the outputs: overwrite them, then repeat under the same seed - the repeat must be bit-identical to the
        # first result (a cached/memoised return value shared between calls would now carry the garbage)
        for _, a_ in flat:
            if isinstance(a_, np.ndarray) and a_.size and a_.flags.writeable and a_.base is None:
                try:
                    a_[...] = a_ + 1 if a_.dtype.kind in "iufc" else ~a_
                except (TypeError, ValueError):
                    pass
        np.random.seed(seed)
        out2 = lib(fn, p)
        check(sig_bytes(flatten(out2)) == sb, "not-reproducible-under-np.random.seed", f"{name} (seed {seed})")
        if rng_sensitive:
            np.random.seed(seed + 1)
            out3 = lib(fn, p)
            check(sig_bytes(flatten(out3)) != sb, "ignores-numpy-global-seed", f"{name}: same output under seeds {seed} and {seed + 1}")
        # same block, same arguments, same gv, earlier in the history -> identical whatever was called in between
        key = (name, s["pool"], gv.sps, repr(gv.R), repr(gv.fs), repr(gv.wavelength), seed if stochastic else None)
        dg = digest([(n, d_, list(sh), b.hex() if len(b) < 64 else __import__("hashlib").sha1(b).hexdigest()) for n, d_, sh, b in sb])
        if key in self.cache:
            check(self.cache[key] == dg, "result-depends-on-call-history", f"{name}: output differs from an earlier identical call")
        self.cache[key] = dg
        self.last = (name, dg)
        self.stats["blocks"].add(name)
        if self.stats["after_clean"]:
            self.stats["clean_then_call"] += 1
        self.invariant(f"call {name}")

    def info(self):
        st_ = self.stats
        nt = (st_["reconf"] >= 2 and st_["omitN_after_N"] >= 1) or st_["clean_then_call"] >= 1 or len(st_["blocks"]) >= 3
        cls = [f"blocks{min(len(st_['blocks']), 6)}", "omitN-after-N" if st_["omitN_after_N"] else "no-omitN", "clean-then-call" if st_["clean_then_call"] else "no-clean-call",
               f"reconf{min(st_['reconf'], 5)}"] + sorted("blk:" + b for b in st_["blocks"])
        return {"nontrivial": bool(nt), "classes": cls, "weight": 1}


def eval_history(case):
    from ..core import set_callform
    set_callform(0)          # histories fix the call form of every step themselves
    it = Interp()
    try:
        for s in case["steps"]:
            it.apply(s)
    finally:
        gv.clean()
    return it.info()


# --------------------------------------------------------------------------------------------------
# step strategies

s_sps = st.one_of(st.sampled_from([1, 2, 3, 4, 8, 16, 17, 32]), st.integers(1, 40))
s_R = st.one_of(st.sampled_from([1e9, 2.5e9, 10e9, 25e9, 1e6]), st.floats(6, 10.5).map(lambda e: float(round(10 ** e))))
custom_val = st.one_of(st.integers(-5, 5), st.floats(-10, 10, allow_nan=False), st.text("abc", max_size=3), st.lists(st.integers(0, 3), max_size=3),
                       st.lists(st.floats(-1, 1, allow_nan=False), min_size=1, max_size=3).map(lambda v: {"arr": v}))
s_conf = st.fixed_dictionaries({"op": st.just("configure"), "form": st.sampled_from(["sps_R", "sps_fs", "R_fs", "sps", "R", "fs", "none", "sps_R", "R_fs"]),
                                "sps": s_sps, "R": s_R, "float_sps": st.booleans(), "wavelength": st.one_of(st.none(), st.none(), st.floats(1260e-9, 1650e-9)),
                                "N": st.one_of(st.none(), st.none(), st.integers(1, 64)), "pos": st.booleans(),
                                "custom": st.one_of(st.none(), st.none(), st.dictionaries(st.sampled_from(["alpha", "beta", "slot_rate", "M", "name", "taps", "_span", "_k", "Alpha_2"]), custom_val, max_size=2))})
s_clean = st.just({"op": "clean"})
fast_blocks = [b for b in BLOCK_NAMES if b not in SLOW]
s_call = st.fixed_dictionaries({"op": st.just("call"), "block": st.one_of(st.sampled_from(fast_blocks), st.sampled_from(fast_blocks), st.sampled_from(BLOCK_NAMES)),
                                "pool": st.integers(0, 2), "seed": st.integers(0, 50)})



# --------------------------------------------------------------------------------------------------
# history-free oracle: the same call evaluated in a FRESH interpreter that only saw the configuration steps

import json as _json
import os as _os
import subprocess as _sp
import sys as _sys

CHANGES = ["wavelength", "wavelength-near", "wavelength-near", "N", "sps-same-fs", "R", "custom", "none", "clean-reconfigure", "fs-near", "fs-near", "fs-near"]
Q_BLOCKS = ["LPF_q", "LPF_q_n2", "BPF_q", "PD_q", "EDFA_q", "DAC_q", "MZM_q", "ook.DSP_q", "LPF_q", "PD_q"]


@st.composite
def s_fresh(draw):
    a = draw(s_conf)
    a = dict(a, form="sps_R", float_sps=False)
    how = draw(st.sampled_from(CHANGES))
    b = dict(a, custom=None)
    if how == "wavelength":
        b["wavelength"] = draw(st.floats(1260e-9, 1650e-9))
    elif how == "wavelength-near":
        a["wavelength"] = draw(st.sampled_from([None, 1550e-9, 1549.9e-9]))
        b["wavelength"] = draw(st.sampled_from([1550.1e-9, 1550.3e-9, 1549.5e-9]))
    elif how == "N":
        b["N"] = draw(st.integers(1, 64))
    elif how == "sps-same-fs":
        k = draw(st.sampled_from([2, 3, 4]))
        a["sps"] = a["sps"] * k if a["sps"] * k <= 64 else a["sps"]
        b = dict(a, custom=None, sps=max(1, a["sps"] // k), R=a["R"] * (a["sps"] / max(1, a["sps"] // k)) if a["sps"] % k == 0 else a["R"])
    elif how == "R":
        b["R"] = draw(s_R)
    elif how == "custom":
        b["custom"] = {"alpha": draw(st.floats(-1, 1, allow_nan=False))}
    blk = draw(st.one_of(st.sampled_from(BLOCK_NAMES), st.sampled_from(["FBG_fixed", "FIBER_nl", "DM", "FIBER_lin", "LPF", "BPF", "EDFA", "PD", "PD_ase_shot", "PD_ase_thermal", "PD_2pol", "LASER", "DAC_gauss", "typing", "utils.spectral", "GET_EYE"])))
    if how == "fs-near":
        # the sampling rate moves by a factor 2..8 INSIDE a decade: blocks called with the same absolute cutoff (BWq) under both rates
        a["R"] = b["R"] = draw(st.sampled_from([1e9, 10e9, 1e8]))
        a["sps"], b["sps"] = draw(st.permutations([4, 8, 16, 32]))[:2]
        a["N"] = b["N"] = None
        blk = draw(st.sampled_from(Q_BLOCKS))
    if how == "wavelength-near":
        # a band wide enough to hold a fixed 193.4 THz grating under every one of these carriers; blocks whose result depends on gv.f0
        a["R"], a["sps"], b["R"], b["sps"] = 25e9, 16, 25e9, 16
        blk = draw(st.sampled_from(["FBG_fixed", "FBG_fixed", "EDFA", "FBG", "utils.spectral", "PD"]))
    call = {"op": "call", "block": blk, "pool": draw(st.integers(0, 2)), "seed": draw(st.integers(0, 50))}
    steps = [a, call] + ([{"op": "clean"}] if how == "clean-reconfigure" else []) + [b, dict(call)]
    return {"steps": steps, "how": how}


def _run_steps(steps):
    it = Interp()
    try:
        for s_ in steps:
            it.apply(s_)
        return it
    finally:
        gv.clean()


def fresh_digest(steps):
    """digest of the LAST call of `steps`, computed by a new interpreter that executes only the non-call steps before it"""
    last = max(i for i, s_ in enumerate(steps) if s_["op"] == "call")
    only = [s_ for s_ in steps[:last] if s_["op"] != "call"] + [steps[last]]
    here = _os.path.dirname(_os.path.dirname(_os.path.dirname(_os.path.abspath(__file__))))
    # (the fresh interpreter also runs under ANOTHER string-hash seed than this process: results must not depend on set/dict iteration order)
    env = dict(_os.environ, PYTHONHASHSEED=str(1 + int(digest(only)[:6], 16) % 4000))
    p = _sp.run([_sys.executable, "-m", "vf.props.c14"], input=_json.dumps(only), cwd=here, env=env, capture_output=True, text=True, timeout=900)
    if p.returncode != 0 or not p.stdout.strip():
        raise RuntimeError("fresh interpreter failed: " + p.stderr[-400:])
    return _json.loads(p.stdout.strip().splitlines()[-1])


def e_fresh(c):
    it = _run_steps(c["steps"])
    name, dg = it.last
    ref = fresh_digest(c["steps"])
    check(ref["block"] == name, "harness-mismatch", f"{ref['block']} vs {name}")
    check(ref["digest"] == dg, "result-depends-on-call-history",
          f"{name} after [{c['how']}]: output differs from the same call made in a fresh interpreter that only executed the configuration steps")
    info = it.info()
    return {"nontrivial": True, "classes": ["chg:" + c["how"], "blk:" + name], "weight": 1}


def machine(ctx):
    class GVMachine(RuleBasedStateMachine):
        def __init__(self):
            super().__init__()
            from ..core import set_callform
            set_callform(0)
            self.steps = []
            self.it = Interp()
            self.done = False

        def _do(self, step):
            self.steps.append(step)
            try:
                self.it.apply(step)
            except Violation as v:
                ctx.failing = {"case": {"steps": list(self.steps)}, "tag": v.tag, "msg": v.msg}
                fid = ctx.classify({"steps": list(self.steps)}, v)
                if fid:
                    ctx.kf_hits[fid] += 1
                    ctx.failing = None
                    self.done = True
                    return
                raise

        @precondition(lambda self: not self.done)
        @rule(s=s_conf)
        def configure(self, s):
            self._do(s)

        @precondition(lambda self: not self.done)
        @rule(s=s_clean)
        def clean(self, s):
            self._do(s)

        @precondition(lambda self: not self.done)
        @rule(s=s_call)
        def call(self, s):
            self._do(s)

        @precondition(lambda self: not self.done)
        @rule(s=s_call)
        def call2(self, s):
            self._do(s)

        def teardown(self):
            gv.clean()
            ctx.evaluations += 1
            ctx.note({"steps": self.steps}, self.it.info())
    return GVMachine


PARTS = [Part("history", eval_history, kind="machine", machine=machine, quick=120, thorough=1200, shards=16, quick_shards=8, steps_quick=30, steps_thorough=60,
              rule="see RULE"),
         Part("fresh", e_fresh, s_fresh(), quick=8, thorough=80, shards=16, quick_shards=8, shrink=False,
              rule="configure A, call, change ONE thing (wavelength / N / sps at the same fs / R / fs within a decade with the same absolute cutoff / custom / clean+reconfigure / nothing), call again: the second "
                   "result is bit-identical to the same call in a fresh interpreter that only executed the configuration steps (history-free oracle)")]


if __name__ == "__main__":
    _steps = _json.loads(_sys.stdin.read())
    _it = _run_steps(_steps)
    print(_json.dumps({"block": _it.last[0], "digest": _it.last[1]}))
