"""C09 - PD is a square-law detector with unit DC gain and the documented noise powers."""
import numpy as np
import scipy.signal as sg
from hypothesis import strategies as st
from scipy.constants import k as KB, e as QE

from ..core import check, lib, raises, Guard
from ..lib import reset, gv, D, electrical_signal, optical_signal
from ..runner import Part
from ..sigs import s_gv, apply_gv, contract

RULE = ("complex fields (1/2 pol, with/without optical noise, 32..4096 samples) x r, T, R_load, BW, i_dark, Fn, the seven include_noise strings in random "
        "letter case, varied gv.fs; deterministic oracle: harness-side Bessel sosfiltfilt of R_load*r*sum|E|^2, invariances (global/per-sample phase, unitary "
        "Jones matrix), scaling laws, term selection by seeded metamorphic twins (T, i_dark, Fn, power, noise-phase scrambling), exact composition of "
        "selections; statistical oracle: sample variance of long CW records vs sigma^2*R_load^2*NEB with a six-sigma band from the filter's autocorrelation; "
        "non-trivial: 2-pol with optical noise, or a statistical case")
ASSUMPTIONS = [
    "the reference output filter is scipy.signal.bessel(4, BW, norm='mag') applied with sosfiltfilt (the filter itself is C11's subject)",
    "statistical acceptance: 6*sqrt(2/N_eff), N_eff = N/sum(rho_k^2) from the filter's power response; false-alarm probability about 2e-9 per assertion",
    "thermal/shot terms are isolated by metamorphic scaling under a fixed numpy seed, which does not presuppose the order of RNG draws",
]
SELECTIONS = ["ase-only", "thermal-only", "shot-only", "ase-thermal", "ase-shot", "thermal-shot", "all"]


def lpf_ref(v, BW, fs):
    sos = sg.bessel(4, BW, "low", fs=fs, output="sos", norm="mag")
    return sg.sosfiltfilt(sos, v).real


def randcase(s, rs):
    return "".join(ch.upper() if rs.randint(0, 2) else ch for ch in s)


@st.composite
def s_det(draw):
    return {"N": draw(st.one_of(st.integers(32, 300), st.sampled_from([32, 33, 64, 1000, 1024, 4096]))), "npol": draw(st.sampled_from([1, 2])),
            "noise": draw(st.booleans()), "seed": draw(st.integers(0, 2 ** 31 - 1)), "gv": draw(s_gv(sps_max=32)),
            "r": draw(st.one_of(st.floats(0.05, 1.0), st.just(1.0), st.just(1))), "T": draw(st.one_of(st.floats(1, 400), st.just(300.0), st.just(300))),
            "R": draw(st.one_of(st.floats(1, 1e4), st.just(50), st.just(50.0))), "bw": draw(st.floats(0.011, 0.449)),
            "idark": draw(st.one_of(st.just(0.0), st.just(10e-9), st.floats(0, 1e-6))), "Fn": draw(st.one_of(st.just(0), st.floats(0, 10))),
            "sel": draw(st.sampled_from(SELECTIONS)), "amp": 10 ** draw(st.one_of(st.floats(-3, 0), st.floats(-3, 0), st.floats(-10, -3))), "cw": draw(st.sampled_from([False, False, True, "ripple", "ripple"])), "ripple": [draw(st.floats(-9, -5.3)), draw(st.floats(0.02, 0.49))], "pn_rel": 10 ** draw(st.floats(-3, -0.5))}


def e_det(c):
    reset()
    sps, Rs, fs = apply_gv(c["gv"])
    N, npol = c["N"], c["npol"]
    rs = np.random.RandomState(c["seed"])
    shape = (N,) if npol == 1 else (2, N)
    amp = c["amp"]
    if c["cw"]:
        E = amp * np.exp(1j * rs.uniform(0, 6, size=(npol, 1) if npol == 2 else 1)) * np.ones(shape)
        if c["cw"] == "ripple":      # an almost unmodulated carrier: relative ripple 1e-9 .. 5e-6 at any frequency up to fs/2
            E = E * (1 + 10 ** c["ripple"][0] * np.sin(2 * np.pi * c["ripple"][1] * np.arange(N) + 0.3))
    else:
        E = amp * (rs.standard_normal(shape) + 1j * rs.standard_normal(shape)) / np.sqrt(2)
    nz = amp * np.sqrt(c["pn_rel"]) * (rs.standard_normal(shape) + 1j * rs.standard_normal(shape)) / np.sqrt(2) if c["noise"] else None
    nkind = "none" if nz is None else ["random", "random", "inphase", "x-lit"][c["seed"] % 4]
    if nkind == "inphase":            # optical noise correlated with the field (a constant fraction of it, slightly rotated) plus a random part
        nz = 0.5 * E * np.exp(0.1j) + 0.1 * nz
    elif nkind == "x-lit" and npol == 2:      # what a one-polarisation source looks like after an amplifier: y carries noise only
        E = E.copy()
        E[1] = 0
    r, T, R, BW, idark, Fn = c["r"], c["T"], c["R"], c["bw"] * fs, c["idark"], c["Fn"]
    sel = randcase(c["sel"], rs)
    x = optical_signal(E.copy(), None if nz is None else nz.copy(), n_pol=npol)
    g = Guard()
    g.add_signal("x", x)
    snap = {k: v for k, v in gv.__dict__.items() if not isinstance(v, np.ndarray)}

    def pd(xx=x, seed=1, **kw):
        a = dict(BW=BW, r=r, T=T, R_load=R, include_noise=sel, i_dark=idark, Fn=Fn)
        a.update(kw)
        np.random.seed(seed)
        return lib(D.PD, xx, **a)
    y = pd()
    contract(y, "E", 1, N, "PD output")
    check(y.noise is not None and y.signal.dtype.kind == "f" and y.noise.dtype.kind == "f", "pd-output-dtype", "")
    psum = np.abs(E) ** 2 if npol == 1 else (np.abs(E) ** 2).sum(axis=0)
    ref = lpf_ref(R * r * psum, BW, fs)
    scale = max(float(np.max(np.abs(ref))), 1e-300)
    check(np.max(np.abs(y.signal - ref)) <= 1e-10 * scale, "pd-signal!=LPF(R*r*|E|^2)", f"max err {np.max(np.abs(y.signal - ref)) / scale:.2e} relative")
    if c["cw"] is True:
        check(np.max(np.abs(y.signal - r * R * float(psum[0]))) <= 1e-10 * scale, "pd-cw!=r*P*R_load", f"{y.signal[:3]} vs {r * R * float(psum[0])}")
    # the signal part does not depend on the noise selection or the seed
    for s2 in SELECTIONS:
        y2 = pd(seed=2, include_noise=s2)
        check(np.array_equal(y2.signal, y.signal), "pd-signal-depends-on-noise-selection", s2)
    # invariances
    ph = np.exp(1j * rs.uniform(0, 6))
    y3 = pd(optical_signal(E * ph, None if nz is None else nz * ph, n_pol=npol))
    check(np.max(np.abs(y3.signal - y.signal)) <= 1e-9 * scale, "pd-depends-on-global-phase", "")
    check(np.max(np.abs(y3.noise - y.noise)) <= 1e-9 * max(float(np.max(np.abs(y.noise))), 1e-300), "pd-noise-depends-on-global-phase", "")
    pht = np.exp(1j * rs.uniform(0, 6, N))
    y4 = pd(optical_signal(E * pht, None if nz is None else nz * pht, n_pol=npol))
    check(np.max(np.abs(y4.signal - y.signal)) <= 1e-9 * scale, "pd-depends-on-per-sample-phase", "")
    if npol == 2:
        th, a1, a2 = rs.uniform(0, 6, 3)
        U2 = np.array([[np.cos(th) * np.exp(1j * a1), -np.sin(th) * np.exp(1j * a2)], [np.sin(th) * np.exp(-1j * a2), np.cos(th) * np.exp(-1j * a1)]])
        y5 = pd(optical_signal(U2 @ E, None if nz is None else U2 @ nz, n_pol=2))
        check(np.max(np.abs(y5.signal - y.signal)) <= 1e-9 * scale, "pd-depends-on-polarisation-rotation", "")
        check(np.max(np.abs(y5.noise - y.noise)) <= 1e-9 * max(float(np.max(np.abs(y.noise))), 1e-300) + 1e-9 * scale, "pd-noise-depends-on-polarisation-rotation", "")
    # scaling laws of the signal part
    check(np.max(np.abs(pd(r=r / 2).signal - y.signal / 2)) <= 1e-9 * scale, "pd-not-linear-in-r", "")
    check(np.max(np.abs(pd(R_load=R * 3).signal - y.signal * 3)) <= 1e-9 * scale * 3, "pd-not-linear-in-R_load", "")
    y6 = pd(optical_signal(2 * E, None if nz is None else nz.copy(), n_pol=npol))
    check(np.max(np.abs(y6.signal - 4 * y.signal)) <= 1e-9 * scale * 4, "pd-not-quadratic-in-amplitude", "")
    # ---- which noise terms are present (metamorphic twins under one seed) ----
    low = c["sel"]
    has_ase, has_th, has_sh = ("ase" in low or low == "all"), ("thermal" in low or low == "all"), ("shot" in low or low == "all")
    dark = idark * R
    nmax = max(float(np.max(np.abs(y.noise - dark))), 1e-300)
    big = max(float(np.max(np.abs(y.noise))), abs(dark), 1e-300)          # cancellation floor of twin differences

    def tolc(part, mult=1.0):
        return 1e-9 * float(np.max(np.abs(part))) * mult + 1e-11 * big * mult

    # thermal: T -> 4T doubles the thermal part, T -> 0 removes it; nothing happens when thermal is not selected
    yT4, yT0 = pd(T=4 * T), pd(T=0)
    twin_cls = []
    if has_th:
        th_part = y.noise - yT0.noise
        check(float(np.max(np.abs(th_part))) > 0, "thermal-term-missing", sel)
        # The realisation-level twins below presuppose that the thermal term is a draw of its own, added to the others. The statement only
        # fixes the terms' distributions (one Gaussian draw of variance S_T + S_N for thermal+shot is equally valid), so for selections that
        # hold both Gaussian terms the twins are conditional on that structure being observed: the thermal-only realisation under the same
        # seed equals the part that disappears with T -> 0. Otherwise they are skipped and counted; the variances are decided by part `stat`.
        separate = True
        if has_sh and T > 0:
            th_only = pd(include_noise="thermal-only").noise - dark
            separate = bool(np.max(np.abs(th_only - th_part)) <= tolc(th_part, 2))
        twin_cls.append("thermal-twins" if separate else "thermal-twins-skipped(no-separate-draw)")
        if separate:
            check(np.max(np.abs((yT4.noise - yT0.noise) - 2 * th_part)) <= tolc(th_part, 2), "thermal-not-proportional-to-sqrt(T)", sel)
            yF = pd(Fn=Fn + 6.0)
            check(np.max(np.abs((yF.noise - yT0.noise) - 10 ** (6.0 / 20) * th_part)) <= tolc(th_part, 2), "thermal-not-scaled-by-Fn", sel)
        if not has_ase and not has_sh:
            # sigma_T (current) ~ 1/sqrt(R_load): the voltage noise grows as sqrt(R_load)
            yR, yR0 = pd(R_load=4 * R), pd(R_load=4 * R, T=0)
            check(np.max(np.abs((yR.noise - yR0.noise) - 2 * th_part)) <= tolc(th_part, 4), "thermal-not-4kTB/R_load", sel)
    else:
        check(np.array_equal(yT4.noise, y.noise) and np.array_equal(yT0.noise, y.noise), "thermal-term-present-but-not-selected", sel)
        check(np.array_equal(pd(Fn=Fn + 6.0).noise, y.noise), "Fn-affects-unselected-thermal", sel)
    # shot: its variance is 2e(r(Ps+Pn)+i_dark)B, so a larger dark current changes (noise - offset); absent -> no change
    pm = r * float(np.mean(psum)) + (r * float(np.sum(np.mean(np.abs(nz) ** 2, axis=-1))) if nz is not None else 0.0)
    dI = 8 * (pm + idark) + 1e-9
    yd = pd(i_dark=idark + dI)
    resid = (yd.noise - (idark + dI) * R) - (y.noise - dark)
    big2 = max(big, (idark + dI) * R)
    if has_sh:
        # variance x9 (up to the 1e-9 A guard) -> the shot part triples: resid = 2 * shot part
        sh_only = pd(T=0, include_noise="shot-only").noise - dark
        ratio = np.sqrt((pm + idark + dI) / (pm + idark)) if (pm + idark) > 0 else None
        check(float(np.max(np.abs(resid))) > 1e-3 * float(np.max(np.abs(sh_only))), "shot-term-missing", sel)
        base = dict(T=0, include_noise="shot-only")
        i1, i2 = 1e-6, 9e-6
        n1, n2 = pd(i_dark=i1, **base).noise - i1 * R, pd(i_dark=i2, **base).noise - i2 * R
        rr = np.sqrt((pm + i2) / (pm + i1))
        check(np.max(np.abs(n2 - rr * n1)) <= 1e-8 * max(float(np.max(np.abs(n2))), 1e-300) + 1e-11 * i2 * R, "shot-variance!=2e(r(Ps+Pn)+i_dark)B", f"expected ratio {rr:.6f}")
        check(np.array_equal(pd(T=7.0, i_dark=i1, include_noise="shot-only").noise, pd(i_dark=i1, **base).noise), "shot-depends-on-T", "")
        _ = ratio
    else:
        check(np.max(np.abs(resid)) <= 1e-10 * big2, "shot-term-present-but-not-selected", sel)
    # dark-current offset is part of every selection (deterministic formulations)
    if not has_sh:
        check(float(np.max(np.abs((yd.noise - y.noise) - dI * R))) <= 1e-9 * big2, "dark-offset-missing", sel)
    else:
        xs = optical_signal(E.copy(), None, n_pol=npol)
        ps = r * float(np.mean(psum))
        i1, i2 = 2e-6, 2e-6 + 8 * (ps + 2e-6)
        na, nb = pd(xs, T=0, i_dark=i1).noise, pd(xs, T=0, i_dark=i2).noise
        rho = np.sqrt((ps + i2) / (ps + i1))
        # same seed: nb - i2*R == rho*(na - i1*R)  =>  nb - rho*na is the constant (i2 - rho*i1)*R
        check(float(np.max(np.abs((nb - rho * na) - (i2 - rho * i1) * R))) <= 1e-8 * max(float(np.max(np.abs(nb))), i2 * R), "dark-offset-missing", sel)
    # ase: beating terms respond to the optical-noise waveform (phase scrambling keeps its power, hence the shot variance)
    if nz is not None:
        scr = np.exp(1j * rs.uniform(0, 6, size=shape))
        ys = pd(optical_signal(E.copy(), nz * scr, n_pol=npol))
        if has_ase:
            bm = R * r * amp ** 2 * np.sqrt(c["pn_rel"])        # size of the beating term
            if bm > 1e-8 * big:                                 # below that it cannot be told apart from rounding of the other terms
                check(float(np.max(np.abs(ys.noise - y.noise))) > 1e-6 * bm, "ase-term-missing", sel)
            beat = R * r * (2 * (E * nz.conj()).real + np.abs(nz) ** 2)
            beat = beat if npol == 1 else beat.sum(axis=0)
            ya = pd(T=0, i_dark=0.0, include_noise="ase-only")
            refa = lpf_ref(beat, BW, fs)
            check(np.max(np.abs(ya.noise - refa)) <= 1e-9 * max(float(np.max(np.abs(refa))), 1e-300), "ase-only!=LPF(R*r*(2Re(E n*)+|n|^2))", "")
        else:
            check(float(np.max(np.abs(ys.noise - y.noise))) <= 1e-10 * big, "ase-term-present-but-not-selected", sel)
    else:
        ya = pd(T=0, i_dark=0.0, include_noise="ase-only")
        check(not np.any(ya.noise), "ase-terms-nonzero-without-optical-noise", "")
    # exact noise scales (conditional clauses): IF a thermal-only / shot-only realisation (with T, i_dark chosen to isolate it) is proportional to
    # the harness-side filtered unit Gaussians that numpy's global generator yields under this seed, the constant must be the documented sigma
    # times R_load exactly. When the premise fails (draws consumed differently) the clause is skipped and counted.
    np.random.seed(1)
    zf = lpf_ref(np.random.normal(0, 1.0, N), BW, fs)
    scale_cls = []
    for nm_, kw_, sig2 in (("thermal", dict(include_noise="thermal-only", i_dark=0.0), 4 * KB * T * 10 ** (Fn / 10) * (fs / 2) / R),
                           ("shot", dict(include_noise="shot-only", i_dark=idark, T=0),
                            2 * QE * (r * float(np.mean(psum)) + (r * float(np.sum(np.mean(np.abs(nz) ** 2, axis=-1))) if nz is not None else 0.0) + idark) * (fs / 2))):
        if sig2 <= 0:
            continue
        nn_ = pd(**kw_).noise - (kw_["i_dark"] * R)
        kk = float(np.dot(zf, nn_) / np.dot(zf, zf))
        if kk != 0 and np.max(np.abs(nn_ - kk * zf)) <= 1e-8 * abs(kk) * np.max(np.abs(zf)) + 1e-12 * abs(kw_["i_dark"] * R):
            want_k = np.sqrt(sig2) * R
            check(abs(kk / want_k - 1) <= 1e-8, f"{nm_}-sigma!=documented", f"{nm_}: noise = {kk:.9e} * filtered unit Gaussians, expected sigma*R_load = {want_k:.9e} (ratio {kk / want_k:.9f}); "
                  f"T={T} Fn={Fn} R_load={R} fs={fs:.4g} r={r} i_dark={idark}")
            scale_cls.append(f"{nm_}-scale-exact")
        else:
            scale_cls.append(f"{nm_}-scale-skipped")
    # exact composition of selections under one seed (same RNG draw order: thermal first, then shot)
    A, TH, SH, TS = (pd(include_noise=s).noise - dark for s in ("ase-only", "thermal-only", "shot-only", "thermal-shot"))
    comp = {"all": A + TS, "ase-thermal": A + TH, "ase-shot": A + SH}
    for k, want in comp.items():
        got = pd(include_noise=k).noise - dark
        check(np.max(np.abs(got - want)) <= 1e-9 * max(float(np.max(np.abs(want))), 1e-300) + 1e-11 * big, "selection-composition", f"{k} != sum of its parts")
    cur = {k: v for k, v in gv.__dict__.items() if not isinstance(v, np.ndarray)}
    check(cur == snap, "pd-changed-gv", "")
    # the same numeric bandwidth after the sampling rate was re-configured in this process: the output filter follows gv.fs
    for ratio in (2.0, 0.5):
        fs2 = fs * ratio
        if 0.011 * fs2 <= BW <= 0.449 * fs2:
            gv(sps=gv.sps, fs=fs2)
            y7 = pd()
            ref7 = lpf_ref(R * r * psum, BW, fs2)
            gv(sps=gv.sps, fs=fs)
            check(np.max(np.abs(y7.signal - ref7)) <= 1e-10 * max(float(np.max(np.abs(ref7))), 1e-300), "pd-filter-uses-stale-sampling-rate",
                  f"BW={BW:.4g}: fs {fs:.4g} -> {fs2:.4g}")
            break
    g.verify()
    g.no_alias([("PD.signal", y.signal), ("PD.noise", y.noise)])
    g.release()
    return {"nontrivial": npol == 2 and nz is not None, "classes": [f"pol{npol}", "optnoise" if nz is not None else "clean", c["sel"], ("cw-ripple" if c["cw"] == "ripple" else "cw") if c["cw"] else "random", c["gv"]["form"], "noise-" + nkind] + scale_cls + twin_cls}


s_err = st.fixed_dictionaries({"what": st.sampled_from(["r0", "r-neg", "r>1", "r-type", "T-neg", "T-type", "R-neg", "R-type", "sel-type", "sel-unknown", "input"]),
                               "v": st.floats(1.0001, 100), "n": st.integers(32, 64)})


def e_err(c):
    reset()
    x = optical_signal(np.ones(c["n"], dtype=complex))
    BW = 5e9
    w = c["what"]
    if w == "r0":
        raises(ValueError, D.PD, x, BW, r=0, tag="r-out-of-range-accepted")
        raises(ValueError, D.PD, x, BW, r=0.0, tag="r-out-of-range-accepted")
    elif w == "r-neg":
        raises(ValueError, D.PD, x, BW, r=-c["v"], tag="r-out-of-range-accepted")
    elif w == "r>1":
        raises(ValueError, D.PD, x, BW, r=c["v"], tag="r-out-of-range-accepted")
    elif w == "r-type":
        for v in ("1", [1.0], 1j, None):
            raises(TypeError, D.PD, x, BW, r=v, tag="r-type-accepted")
    elif w == "T-neg":
        raises(ValueError, D.PD, x, BW, T=-c["v"], tag="T-negative-accepted")
    elif w == "T-type":
        for v in ("300", [300]):
            raises(TypeError, D.PD, x, BW, T=v, tag="T-type-accepted")
    elif w == "R-neg":
        raises(ValueError, D.PD, x, BW, R_load=-c["v"], tag="R_load-negative-accepted")
    elif w == "R-type":
        for v in ("50", [50]):
            raises(TypeError, D.PD, x, BW, R_load=v, tag="R_load-type-accepted")
    elif w == "sel-type":
        for v in (3, None, ["all"], True):
            raises(TypeError, D.PD, x, BW, include_noise=v, tag="include_noise-type-accepted")
    elif w == "sel-unknown":
        for v in ("none", "thermal", "shot", "ase", "all-only", "", "thermal-ase", "shot-thermal"):
            raises(ValueError, D.PD, x, BW, include_noise=v, tag="include_noise-unknown-accepted")
    else:
        for v in (electrical_signal(np.ones(c["n"])), np.ones(c["n"], dtype=complex), [1.0] * c["n"]):
            raises(TypeError, D.PD, v, BW, tag="pd-non-optical-accepted")
    return {"nontrivial": True, "classes": [w]}


# --------------------------------------------------------------------------------------------------
# statistical clauses

@st.composite
def s_stat(draw):
    return {"gv": draw(s_gv(sps_max=32)), "regime": draw(st.sampled_from(["thermal", "shot-dark", "shot-bright", "shot-optnoise", "shot-corrnoise", "both", "all"])),
            "seed": draw(st.integers(0, 2 ** 31 - 1)), "r": draw(st.floats(0.1, 1.0)), "T": draw(st.floats(50, 400)), "R": 10 ** draw(st.floats(1, 3)),
            "bw": draw(st.floats(0.011, 0.449)), "Fn": draw(st.one_of(st.just(0.0), st.floats(0, 10))), "p_dbm": draw(st.floats(-30, 10)),
            "idark": 10 ** draw(st.floats(-9, -6)), "npol": draw(st.sampled_from([1, 2]))}


def neb_and_neff(BW, fs, N):
    sos = sg.bessel(4, BW, "low", fs=fs, output="sos", norm="mag")
    M = 1 << 16
    _, H = sg.sosfreqz(sos, worN=M, fs=fs, whole=True)
    P = np.abs(H) ** 4                 # zero-phase (forward-backward) power response
    neb = float(np.mean(P))            # output variance / input variance for white noise
    rho = np.fft.ifft(P).real
    rho = rho / rho[0]
    return neb, N / float(np.sum(rho ** 2))


def e_stat(c, logn=18):
    reset()
    sps, Rs, fs = apply_gv(c["gv"])
    N = 2 ** logn
    rs = np.random.RandomState(c["seed"])
    r, T, R, BW, Fn, npol = c["r"], c["T"], c["R"], c["bw"] * fs, c["Fn"], c["npol"]
    P = 10 ** (c["p_dbm"] / 10) * 1e-3
    reg = c["regime"]
    shape = (N,) if npol == 1 else (2, N)
    idark = c["idark"]
    nz = None
    if reg == "thermal":
        sel, Pn = "thermal-only", 0.0
    elif reg == "shot-dark":
        sel, P, Pn = "shot-only", 0.0, 0.0
    elif reg == "shot-bright":
        sel, Pn = "shot-only", 0.0
    elif reg == "shot-optnoise":
        sel, Pn = "shot-only", P * 0.5
    elif reg == "shot-corrnoise":
        sel, Pn = "shot-only", P * 0.36
    elif reg == "both":
        sel, Pn = "thermal-shot", 0.0
    else:
        sel, Pn = "all", 0.0
    E = np.sqrt(P / npol) * np.ones(shape, dtype=complex)
    if Pn:
        nz = np.sqrt(Pn / npol / 2) * (rs.standard_normal(shape) + 1j * rs.standard_normal(shape))
    if reg == "shot-corrnoise":
        nz = 0.6 * E        # optical noise fully correlated (in phase) with the field: mean powers add, the cross term is no part of the documented variance
    x = optical_signal(E, nz, n_pol=npol)
    np.random.seed(c["seed"] ^ 0xABCDE)
    y = lib(D.PD, x, BW, r, T, R, sel, idark, Fn)
    contract(y, "E", 1, N, "PD output")
    B = fs / 2
    var_T = 4 * KB * T * 10 ** (Fn / 10) * B / R if "thermal" in sel or sel == "all" else 0.0
    pn_meas = float(np.sum(np.mean(np.abs(nz) ** 2, axis=-1))) if nz is not None else 0.0
    var_S = 2 * QE * (r * (P + pn_meas) + idark) * B if "shot" in sel or sel == "all" else 0.0
    neb, neff_full = neb_and_neff(BW, fs, N)
    want = (var_T + var_S) * R ** 2 * neb
    m = slice(N // 8, 7 * N // 8)
    nn = y.noise[m]
    neff = neff_full * 0.75
    meas = float(np.var(nn))
    band = 6 * np.sqrt(2 / neff)
    check(abs(meas / want - 1) <= band, "noise-variance!=documented", f"{reg}: measured/expected = {meas / want:.4f} (band {band:.4f}); T={T:.0f} R={R:.1f} Fn={Fn:.1f} P={P:.2e} BW/fs={c['bw']:.3f}")
    mean_dev = abs(float(np.mean(nn)) - idark * R)
    check(mean_dev <= 6 * np.sqrt(want / neff) + 1e-12 * idark * R, "noise-mean!=dark-offset", f"{reg}: mean-offset deviation {mean_dev:.3e} vs sigma {np.sqrt(want):.3e}")
    frac_T = var_T / (var_T + var_S)
    return {"nontrivial": True, "classes": [reg, f"pol{npol}", "thermal>=90%" if frac_T >= 0.9 else "shot>=90%" if frac_T <= 0.1 else "mixed"]}


def e_stat20(c):
    return e_stat(c, 20)


PARTS = [
    Part("det", e_det, s_det(), quick=250, thorough=3750, shards=16, quick_shards=4, rule="deterministic and seeded-twin clauses"),
    Part("errors", e_err, s_err, quick=60, thorough=750, shards=1, rule="documented error paths"),
    Part("stat", e_stat, s_stat(), quick=24, thorough=0, shards=1, quick_shards=4, shrink=False, rule="2^18-sample CW realisations (quick tier)"),
    Part("stat20", e_stat20, s_stat(), quick=0, thorough=150, shards=16, shrink=False, rule="2^20-sample CW realisations (thorough tier)"),
]
