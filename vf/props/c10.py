"""C10 - EDFA applies gain G to all of its input and adds ASE of the documented power."""
import numpy as np
from hypothesis import strategies as st
from scipy.constants import h as H_PLANCK, c as C_LIGHT

from ..core import check, lib, raises, Guard
from ..lib import reset, shadow_gv, gv, D, electrical_signal, optical_signal
from ..runner import Part
from ..sigs import s_signal, s_gv, apply_gv, build, contract

RULE = ("1/2-pol inputs (complex and real dtype; noise none/complex/real) x G in [0,40] dB x NF in [3,10] dB x gv wavelength/fs x optional BW; "
        "oracle: exact sqrt(G) scaling of the signal, noise decomposition by a seeded noise-free twin call, BW == BPF(EDFA) under the same seed; "
        "statistical part: ASE realisations of >= 2^16 samples against NF*h*f0*(G-1)*fs, independence and zero mean with six-sigma bands; "
        "non-trivial: input carries noise, or 1-pol input, or BW given")
ASSUMPTIONS = [
    "statistical clauses use six-sigma bands (false-alarm probability about 2e-9 per assertion)",
    "the ASE realisation of a call is identified with the noise of a twin call on the noise-stripped input under the same numpy seed",
]


@st.composite
def s_det(draw):
    n = draw(st.one_of(st.integers(1, 40), st.sampled_from([32, 64, 100, 257, 1024, 4096])))
    x = draw(s_signal(n=n, cls="O", dts=("c", "c", "f", "i"), fams=["gauss", "unif", "const", "smallint"]))
    x["nscale"] = draw(st.sampled_from([1.0, 1.0, 1e-9, 1e-12]))      # a genuine noise component far below any "is it zero?" tolerance
    return {"x": x, "fs_ratio": draw(st.sampled_from([0.5, 2.0, 4.0])), "gv": draw(s_gv(sps_max=32, with_extra=True)), "G": draw(st.one_of(st.floats(0, 40), st.sampled_from([0.0, 20.0, 40.0]))),
            "NF": draw(st.floats(3, 10)), "bw": draw(st.one_of(st.none(), st.floats(0.02, 0.45), st.floats(0.02, 0.45), st.floats(0.45, 0.995), st.sampled_from([0.9, 0.97, 0.98, 0.985, 0.99, 0.995]))), "seed": draw(st.integers(0, 2 ** 31 - 1))}


def strip(x):
    return optical_signal(x.signal.copy(), None, n_pol=x.n_pol)


def e_det(c):
    reset()
    sps, R, fs = apply_gv(c["gv"])
    if c["seed"] % 3 == 0 and not c["gv"]["form"].endswith("_nc") and c["gv"]["form"] != "default":
        shadow_gv()              # user attributes named BW, G, NF ... sit in gv: EDFA(x, G, NF) must not pick them up
    x, m = build(c["x"])
    if m.n is not None and c["x"].get("nscale", 1.0) != 1.0:
        from ..sigs import Model
        nn_ = m.n.astype(np.result_type(m.n, float)) * c["x"]["nscale"]
        rt_ = np.result_type(m.s, nn_)
        m = Model(m.cls, m.npol, m.s.astype(rt_), nn_.astype(rt_))
        x = optical_signal(m.s.copy(), m.n.copy(), n_pol=m.npol)
    N = m.N
    G, NF = c["G"], c["NF"]
    g = 10 ** (G / 10)
    guard = Guard()
    guard.add_signal("x", x)
    snap = dict(gv.__dict__)
    np.random.seed(c["seed"])
    A = lib(D.EDFA, x, G, NF)
    contract(A, "O", 2, N, "EDFA output")
    check(A.noise is not None, "edfa-no-noise-component", "")
    check(dict(gv.__dict__).keys() == snap.keys() and all(gv.__dict__[k] is snap[k] or gv.__dict__[k] == snap[k] for k in ("sps", "R", "fs", "f0", "wavelength")),
          "edfa-changed-gv", "")
    want = np.zeros((2, N), dtype=complex)
    if m.npol == 1:
        want[0] = np.sqrt(g) * m.s
    else:
        want[:] = np.sqrt(g) * m.s
    scale = max(float(np.max(np.abs(want))), 1e-300)
    check(np.allclose(A.signal, want, rtol=1e-12, atol=1e-12 * scale), "edfa-signal!=sqrt(G)*input", f"G={G} dB n_pol={m.npol}: max err {np.max(np.abs(A.signal - want)):.3e}")
    if m.npol == 1:
        check(not np.any(A.signal[1]), "edfa-y-polarisation-carries-signal", "")
    # noise decomposition by a seeded twin
    np.random.seed(c["seed"])
    B = lib(D.EDFA, strip(x), G, NF)
    contract(B, "O", 2, N, "EDFA output (noise-free twin)")
    check(np.allclose(B.signal, A.signal, rtol=1e-15, atol=0), "edfa-signal-depends-on-input-noise", "")
    amplified = A.noise - B.noise
    wn = np.zeros((2, N), dtype=complex)
    if m.n is not None:
        if m.npol == 1:
            wn[0] = np.sqrt(g) * m.n
        else:
            wn[:] = np.sqrt(g) * m.n
    nscale = max(float(np.max(np.abs(wn))), float(np.max(np.abs(B.noise))), 1e-300)
    check(np.allclose(amplified, wn, rtol=1e-9, atol=1e-9 * nscale), "edfa-input-noise-not-amplified-by-sqrt(G)",
          f"G={G} dB n_pol={m.npol}: (A.noise-ASE) max {np.max(np.abs(amplified)):.3e}, expected sqrt(G)*in.noise max {np.max(np.abs(wn)):.3e}")
    # exact ASE scale (conditional clause): IF the ASE realisation is proportional to the unit Gaussians that numpy's global generator
    # yields under this seed (4 x N standard normals, rows = x-re, y-re, x-im, y-im), the constant of proportionality is sqrt(P_ase/4)
    # exactly. The premise does not presuppose the implementation: when the draws are consumed differently the clause is skipped (counted).
    exact = "ase-scale-skipped"
    if G > 0.5 and N >= 8:
        np.random.seed(c["seed"])
        z = np.random.randn(4, N)
        zc = z[:2] + 1j * z[2:]
        num, den = np.vdot(zc, B.noise), np.vdot(zc, zc).real
        k = num / den
        if np.max(np.abs(B.noise - k * zc)) <= 1e-9 * abs(k) * np.max(np.abs(zc)):
            f0 = C_LIGHT / (c["gv"].get("wavelength") or 1550e-9)
            want_k = np.sqrt(10 ** (NF / 10) * H_PLANCK * f0 * (g - 1) * fs / 4)
            check(abs(k.imag) <= 1e-9 * abs(k) and abs(k.real / want_k - 1) <= 1e-9, "ase-scale!=sqrt(NF*h*f0*(G-1)*fs/4)",
                  f"G={G:.3f} dB NF={NF:.3f} dB fs={fs:.4g} f0={f0:.6g}: ASE = {k.real:.9e} * unit Gaussians, expected {want_k:.9e} (ratio {k.real / want_k:.9f})")
            exact = "ase-scale-exact"
    # a second stage fed with the first stage's output (whose signal keeps the input's real/complex type while its noise is complex):
    # the incoming noise - both quadratures - is amplified like the signal
    G2 = 3.0 + (c["seed"] % 7)
    g2 = 10 ** (G2 / 10)
    np.random.seed(c["seed"] ^ 0x77)
    C2 = lib(D.EDFA, A, G2, NF)
    np.random.seed(c["seed"] ^ 0x77)
    B2 = lib(D.EDFA, strip(A), G2, NF)
    amp2 = C2.noise - B2.noise
    n2s = max(float(np.max(np.abs(A.noise))) * np.sqrt(g2), float(np.max(np.abs(B2.noise))), 1e-300)
    check(np.allclose(amp2, np.sqrt(g2) * A.noise, rtol=1e-9, atol=1e-9 * n2s), "edfa-input-noise-not-amplified-by-sqrt(G)",
          f"second stage (G={G2} dB) on the output of the first (signal dtype {A.signal.dtype}, noise dtype {A.noise.dtype}): "
          f"max err {np.max(np.abs(amp2 - np.sqrt(g2) * A.noise)):.3e} of {n2s:.3e}")
    check(np.allclose(C2.signal, np.sqrt(g2) * A.signal, rtol=1e-12, atol=1e-12 * scale * np.sqrt(g2)), "edfa-signal!=sqrt(G)*input", "second stage")
    # fresh ASE on every call
    if G > 0.5:
        A2 = lib(D.EDFA, x, G, NF)
        check(not np.array_equal(A2.noise, A.noise), "edfa-ase-not-fresh", "")
    # bandwidth argument: the whole output (signal and noise) is band-limited by the optical filter - compared with the library's own BPF
    # applied afterwards AND with a harness-side reference filter (scipy Bessel, cutoff BW/2, zero phase) for the sampling rate in force
    if c["bw"] is not None and N >= 32:
        import scipy.signal as sg

        def ref_filter(v, bw, fs_):
            return sg.sosfiltfilt(sg.bessel(4, bw / 2, "low", fs=fs_, output="sos", norm="mag"), v, axis=-1)
        BW = c["bw"] * fs
        np.random.seed(c["seed"])
        F = lib(D.EDFA, x, G, NF, BW)
        contract(F, "O", 2, N, "EDFA(BW) output")
        ref = lib(D.BPF, A, BW)
        check(np.allclose(F.signal, ref.signal, rtol=1e-12, atol=1e-12 * scale) and np.allclose(F.noise, ref.noise, rtol=1e-12, atol=1e-12 * nscale),
              "edfa(BW)!=BPF(edfa)", "")
        check(np.allclose(F.signal, ref_filter(A.signal, BW, fs), rtol=1e-9, atol=1e-9 * scale) and np.allclose(F.noise, ref_filter(A.noise, BW, fs), rtol=1e-9, atol=1e-9 * nscale),
              "edfa(BW)-not-band-limited-by-the-optical-filter", f"BW={BW:.4g} fs={fs:.4g}")
        # the same bandwidth after the sampling rate was re-configured in this process
        fs2 = fs * c["fs_ratio"]
        if 0.02 * fs2 <= BW <= 0.45 * fs2:
            gv(sps=gv.sps, fs=fs2, wavelength=gv.wavelength)
            np.random.seed(c["seed"])
            A2 = lib(D.EDFA, x, G, NF)
            np.random.seed(c["seed"])
            F2 = lib(D.EDFA, x, G, NF, BW)
            s2, n2 = max(float(np.max(np.abs(A2.signal))), 1e-300), max(float(np.max(np.abs(A2.noise))), 1e-300)
            check(np.allclose(F2.signal, ref_filter(A2.signal, BW, fs2), rtol=1e-9, atol=1e-9 * s2) and np.allclose(F2.noise, ref_filter(A2.noise, BW, fs2), rtol=1e-9, atol=1e-9 * n2),
                  "edfa(BW)-filter-uses-stale-sampling-rate", f"BW={BW:.4g}: fs {fs:.4g} -> {fs2:.4g}")
            gv(sps=gv.sps, fs=fs, wavelength=gv.wavelength)
    guard.verify()
    guard.no_alias([("EDFA.signal", A.signal), ("EDFA.noise", A.noise)])
    guard.release()
    for bad in (electrical_signal(np.ones(8)), np.ones(8, dtype=complex), [1.0, 2.0]):
        raises(TypeError, D.EDFA, bad, G, NF, tag="edfa-non-optical-accepted")
    nt = m.n is not None or m.npol == 1 or c["bw"] is not None
    return {"nontrivial": bool(nt), "classes": [f"pol{m.npol}", "noise" if m.n is not None else "clean", f"dt-{c['x']['sig']['dt']}", "bw>0.9fs" if (c["bw"] or 0) > 0.9 else "bw" if c["bw"] else "no-bw",
                                                 c["gv"]["form"], "wl" if c["gv"].get("wavelength") else "wl-default", exact]}


@st.composite
def s_stat(draw):
    return {"gv": draw(s_gv(sps_max=32, with_extra=True)), "G": draw(st.floats(3, 40)), "NF": draw(st.floats(3, 10)), "seed": draw(st.integers(0, 2 ** 31 - 1)),
            "npol": draw(st.sampled_from([1, 2])), "logn": draw(st.sampled_from([16, 16, 17, 18])), "nodd": draw(st.sampled_from([0, 0, 0, 0, 0, 0, 0, 0, 1, 1, 2])),
            "f0_direct": draw(st.one_of(st.none(), st.none(), st.floats(180e12, 240e12))), "p_in": draw(st.floats(-40, 0)),
            "osnr_in": draw(st.one_of(st.none(), st.floats(5, 40)))}


def e_stat(c):
    reset()
    sps, R, fs = apply_gv(c["gv"])
    N = {0: 2 ** c["logn"], 1: 100003, 2: 2 ** 20 + 50001}[c.get("nodd", 0)]      # powers of two, a prime length, a record beyond 2^20 samples
    rs = np.random.RandomState(c["seed"])
    P = 10 ** (c["p_in"] / 10) * 1e-3
    shape = (N,) if c["npol"] == 1 else (2, N)
    s = np.sqrt(P / c["npol"]) * np.exp(2j * np.pi * rs.uniform(size=shape))
    nz = None
    if c["osnr_in"] is not None:
        Pn = P / 10 ** (c["osnr_in"] / 10)
        nz = np.sqrt(Pn / c["npol"] / 2) * (rs.standard_normal(shape) + 1j * rs.standard_normal(shape))
    x = optical_signal(s, nz, n_pol=c["npol"])
    G, NF = c["G"], c["NF"]
    g, nf = 10 ** (G / 10), 10 ** (NF / 10)
    if c.get("f0_direct"):
        gv(sps=gv.sps, fs=fs, f0=c["f0_direct"])         # the centre frequency given directly (documented **kargs path of gv)
        check(gv.fs == fs, "gv-reconfigure-changed-fs", "")
    np.random.seed(c["seed"] ^ 0x5A5A)
    B = lib(D.EDFA, strip(x), G, NF)
    ase = B.noise
    f0 = c.get("f0_direct") or C_LIGHT / (c["gv"].get("wavelength") or 1550e-9)
    check(abs(gv.f0 - f0) <= 1e-9 * f0, "gv.f0-inconsistent", "")
    P_ase = nf * H_PLANCK * f0 * (g - 1) * fs
    meas = float(np.sum(np.mean(np.abs(ase) ** 2, axis=-1)))
    band = 6 / np.sqrt(2 * N)
    check(abs(meas / P_ase - 1) <= band, "ase-power!=NF*h*f0*(G-1)*fs", f"G={G:.2f} NF={NF:.2f} fs={fs:.3e}: ratio {meas / P_ase:.4f} (band {band:.4f})")
    comps = np.array([ase[0].real, ase[0].imag, ase[1].real, ase[1].imag])
    sd = np.sqrt(P_ase / 4)
    check(bool(np.all(np.abs(comps.mean(axis=1)) <= 6 * sd / np.sqrt(N))), "ase-not-zero-mean", f"{comps.mean(axis=1) / sd}")
    var = comps.var(axis=1)
    check(bool(np.all(np.abs(var / sd ** 2 - 1) <= 6 * np.sqrt(2 / N))), "ase-component-variance", f"{var / sd ** 2}")
    cc = np.corrcoef(comps)
    off = cc[~np.eye(4, dtype=bool)]
    check(bool(np.all(np.abs(off) <= 6 / np.sqrt(N))), "ase-components-correlated", f"max |rho| {np.max(np.abs(off)):.4f}")
    k4 = np.mean((comps / sd) ** 4, axis=1)
    check(bool(np.all(np.abs(k4 - 3) <= 6 * np.sqrt(96 / N))), "ase-not-gaussian", f"4th moments {k4}")
    lag = np.array([np.mean(comps[i, 1:] * comps[i, :-1]) for i in range(4)]) / sd ** 2
    check(bool(np.all(np.abs(lag) <= 6 / np.sqrt(N))), "ase-not-white", f"lag-1 correlation {lag}")
    # stationarity: the same noise power in every eighth of the record and in its last 1/64 (chi-square with 4M degrees of freedom per segment)
    pw = (np.abs(ase) ** 2).sum(axis=0)
    for nseg in (8, 64):
        M = N // nseg
        segs = [pw[i * M:(i + 1) * M].mean() for i in range(nseg)] + [pw[N - M:].mean()]
        worst = max(abs(v / P_ase - 1) for v in segs)
        check(worst <= 7 / np.sqrt(2 * M), "ase-not-stationary", f"N={N}: segment power / P_ase deviates by {worst:.4f} (band {7 / np.sqrt(2 * M):.4f}, {nseg} segments + tail)")
    # OSNR never improves (beyond the sampling fluctuation of the signal-independent cross term)
    if nz is not None:
        np.random.seed(c["seed"] ^ 0x1234)
        A = lib(D.EDFA, x, G, NF)
        ps_in, pn_in = np.sum(np.mean(np.abs(s) ** 2, axis=-1)), np.sum(np.mean(np.abs(nz) ** 2, axis=-1))
        ps_out, pn_out = np.sum(np.mean(np.abs(A.signal) ** 2, axis=-1)), np.sum(np.mean(np.abs(A.noise) ** 2, axis=-1))
        slack = 6 * 2 * np.sqrt(g * pn_in * P_ase / N) / (g * pn_in + P_ase)
        check(ps_out / pn_out <= ps_in / pn_in * (1 + slack + 1e-9), "edfa-improves-osnr",
              f"OSNR in {ps_in / pn_in:.4e} out {ps_out / pn_out:.4e} (G={G:.1f} dB)")
    return {"nontrivial": True, "classes": [f"pol{c['npol']}", f"N2^{c['logn']}" if not c.get("nodd") else f"N={N}", "noisy-input" if nz is not None else "clean-input"]}


PARTS = [
    Part("det", e_det, s_det(), quick=800, thorough=40000, shards=8, rule="deterministic clauses under fixed numpy seeds"),
    Part("stat", e_stat, s_stat(), quick=40, thorough=1200, shards=16, quick_shards=4, shrink=False, rule="ASE statistics over 2^16..2^18, 100003 and 2^20+50001 samples, six-sigma bands, stationarity over 8/64 segments and the tail"),
]
