"""C19 - unit conversions, Q, gaus, rcos, dec2bin, str2array, si are self-consistent."""
import math
import re

import numpy as np
from hypothesis import strategies as st
from scipy import integrate, stats

from ..core import check, lib, raises, Violation
from ..lib import U
from ..runner import Part
from ..textoracle import run_campaign, eval_text

RULE = ("Generated numeric inputs over 30 decades / rendered arrays / (v,d) pairs, each checked against numpy/scipy "
        "identities or by parsing the produced text back; distinct = sha1 of the canonical JSON case; non-trivial as "
        "stated per part")
ASSUMPTIONS = [
    "numpy.log10/power, scipy.special.erfc, scipy.stats.norm and scipy.integrate.quad are trusted as references",
    "db/dbm are exercised with Python int/float, numpy float64, list, tuple and ndarray inputs (the documented types)",
    "str2array inputs are fixed-point renderings (no exponents), >= 2 rows for 2-D arrays",
]

# --------------------------------------------------------------------------------------------------
# db / idb / dbm / idbm


@st.composite
def s_db(draw):
    kind = draw(st.sampled_from(["scalar_float", "scalar_int", "scalar_np", "list", "tuple", "array"]))
    n = 1 if kind.startswith("scalar") else draw(st.integers(1, 8))
    exps = draw(st.lists(st.floats(-15, 15, allow_nan=False), min_size=n, max_size=n))
    exps2 = draw(st.lists(st.floats(-15, 15, allow_nan=False), min_size=n, max_size=n))
    ys = draw(st.lists(st.floats(-300, 300, allow_nan=False), min_size=n, max_size=n))
    neg = draw(st.integers(0, n - 1))
    return {"kind": kind, "exps": exps, "exps2": exps2, "ys": ys, "neg": neg}


def _box(kind, vals):
    if kind == "scalar_float":
        return float(vals[0])
    if kind == "scalar_int":
        return int(max(1, round(vals[0])))
    if kind == "scalar_np":
        return np.float64(vals[0])
    if kind == "list":
        return [float(v) for v in vals]
    if kind == "tuple":
        return tuple(float(v) for v in vals)
    return np.array(vals, dtype=float)


def e_db(c):
    kind = c["kind"]
    xs = [10.0 ** e for e in c["exps"]]
    x2 = [10.0 ** e for e in c["exps2"]]
    x = _box(kind, xs)
    xv = np.atleast_1d(np.array(x, dtype=float))
    y = _box(kind if kind != "scalar_int" else "scalar_float", c["ys"])
    yv = np.atleast_1d(np.array(y, dtype=float))
    # round trips
    r = np.atleast_1d(lib(U.idb, lib(U.db, x)))
    check(np.allclose(r, xv, rtol=1e-12, atol=0), "idb(db(x))!=x", f"x={xv} got {r}")
    r = np.atleast_1d(lib(U.idbm, lib(U.dbm, x)))
    check(np.allclose(r, xv, rtol=1e-12, atol=0), "idbm(dbm(x))!=x", f"x={xv} got {r}")
    r = np.atleast_1d(lib(U.db, lib(U.idb, y)))
    check(np.allclose(r, yv, rtol=0, atol=1e-10), "db(idb(y))!=y", f"y={yv} got {r}")
    r = np.atleast_1d(lib(U.dbm, lib(U.idbm, y)))
    check(np.allclose(r, yv, rtol=0, atol=1e-10), "dbm(idbm(y))!=y", f"y={yv} got {r}")
    # absolute definitions (independent reference)
    check(np.allclose(np.atleast_1d(lib(U.db, x)), 10 * np.log10(xv), rtol=0, atol=1e-9), "db!=10log10", "")
    check(np.allclose(np.atleast_1d(lib(U.idbm, y)), 10 ** (yv / 10) * 1e-3, rtol=1e-12, atol=0), "idbm-def", "")
    # product law and dbm offset
    if kind != "scalar_int":
        prod = _box(kind, [a * b for a, b in zip(xs, x2)])
        lhs = np.atleast_1d(lib(U.db, prod))
        rhs = np.atleast_1d(lib(U.db, x)) + np.atleast_1d(lib(U.db, _box(kind, x2)))
        check(np.allclose(lhs, rhs, rtol=0, atol=1e-9), "db(xy)!=db(x)+db(y)", f"{lhs} vs {rhs}")
    check(np.allclose(np.atleast_1d(lib(U.dbm, x)), np.atleast_1d(lib(U.db, x)) + 30, rtol=0, atol=1e-9), "dbm!=db+30", "")
    # negative inputs
    bad = list(xs)
    bad[c["neg"]] = -bad[c["neg"]]
    if kind != "scalar_int":
        raises(ValueError, U.db, _box(kind, bad), tag="db-negative-accepted")
        raises(ValueError, U.dbm, _box(kind, bad), tag="dbm-negative-accepted")
    else:
        raises(ValueError, U.db, -int(max(1, round(xs[0]))), tag="db-negative-accepted")
    for badtype in ("3", None, {"a": 1}, 1 + 2j):
        raises(TypeError, U.db, badtype, tag="db-badtype")
        raises(TypeError, U.dbm, badtype, tag="dbm-badtype")
    span = (max(c["exps"]) - min(c["exps"])) if len(xs) > 1 else 0
    return {"nontrivial": len(xs) > 1 or abs(c["exps"][0]) > 3, "classes": [kind, "span>=10" if span >= 10 else "span<10"]}


# --------------------------------------------------------------------------------------------------
# Q, gaus


@st.composite
def s_q(draw):
    xs = draw(st.lists(st.floats(-8, 30, allow_nan=False), min_size=1, max_size=12))
    mu = draw(st.floats(-50, 50, allow_nan=False))
    std = 10 ** draw(st.floats(-3, 3, allow_nan=False))
    d = draw(st.floats(0, 6, allow_nan=False))
    kind = draw(st.sampled_from(["array", "list", "scalar"]))
    return {"xs": xs, "mu": mu * 1.0, "std": std, "d": d, "kind": kind}


def e_q(c):
    xs = np.sort(np.array(c["xs"], dtype=float))
    arg = xs if c["kind"] == "array" else (xs.tolist() if c["kind"] == "list" else float(xs[0]))
    xv = np.atleast_1d(np.array(arg, dtype=float))
    q = np.atleast_1d(lib(U.Q, arg))
    qm = np.atleast_1d(lib(U.Q, -xv if c["kind"] == "array" else ((-xv).tolist() if c["kind"] == "list" else float(-xv[0]))))
    check(np.allclose(q + qm, 1.0, rtol=0, atol=1e-12), "Q(x)+Q(-x)!=1", f"{q + qm}")
    check(np.all(np.diff(q) <= 1e-18), "Q-not-decreasing", f"x={xv} q={q}")
    check(abs(float(lib(U.Q, 0.0)) - 0.5) <= 1e-15, "Q(0)!=0.5", "")
    ref = stats.norm.sf(xv)
    check(np.allclose(q, ref, rtol=1e-9, atol=1e-300), "Q!=norm.sf", f"{q} vs {ref}")
    check(np.all((q >= 0) & (q <= 1)), "Q-out-of-[0,1]", "")
    # gaus: integrates to one, symmetric, equals the normal pdf
    mu, sd, d = c["mu"] * c["std"] / 5, c["std"], c["d"] * c["std"]
    val, _ = integrate.quad(lambda t: float(U.gaus(t, mu, sd)), mu - 12 * sd, mu + 12 * sd, points=[mu], epsabs=1e-12, epsrel=1e-11)
    check(abs(val - 1) <= 1e-8, "gaus-integral!=1", f"mu={mu} std={sd} integral={val}")
    a, b = float(lib(U.gaus, mu + d, mu, sd)), float(lib(U.gaus, mu - d, mu, sd))
    check(abs(a - b) <= 1e-9 * max(a, b, 1e-300), "gaus-not-symmetric", f"{a} vs {b}")
    pts = np.array([mu - d, mu, mu + 0.3 * sd])
    check(np.allclose(lib(U.gaus, pts, mu, sd), stats.norm.pdf(pts, mu, sd), rtol=1e-9, atol=0), "gaus!=norm.pdf", "")
    if c["kind"] != "scalar":
        check(np.allclose(lib(U.gaus, xv.tolist()), stats.norm.pdf(xv), rtol=1e-9, atol=0), "gaus-default-args", "")
    return {"nontrivial": len(xs) >= 3, "classes": [c["kind"]]}


# --------------------------------------------------------------------------------------------------
# rcos


@st.composite
def s_rcos(draw):
    alpha = draw(st.one_of(st.just(1.0), st.just(0.0), st.floats(0.01, 1.0, allow_nan=False)))
    T = draw(st.one_of(st.sampled_from([0.5, 1.0, 2.0, 0.25, 1e-3, 1e3]), st.floats(-3, 3).map(lambda e: 10.0 ** e)))
    # points in units of 1/(2T)
    us = draw(st.lists(st.one_of(st.floats(-3, 3, allow_nan=False), st.sampled_from([0.0, 1.0, -1.0, 2.0, -2.0, 0.5, 3.0])),
                       min_size=1, max_size=10))
    kind = draw(st.sampled_from(["array", "list", "tuple", "intarray", "intlist"]))
    return {"alpha": alpha, "T": T, "us": us, "kind": kind}


def e_rcos(c):
    alpha, T = c["alpha"], c["T"]
    half = 1 / (2 * T)
    integer = c["kind"].startswith("int")
    if integer:
        # integer-valued inputs: choose T so that 1/(2T) is an integer
        T = 0.5 / max(1, int(round(abs(math.log10(c["T"])))) or 1)
        half = 1 / (2 * T)
        xs = [int(round(u)) * int(round(half)) if abs(u) >= 0.75 else 0 for u in c["us"]] + [int(round(half))]
        x = np.array(xs, dtype=np.int64) if c["kind"] == "intarray" else [int(v) for v in xs]
    else:
        xs = [u * half for u in c["us"]] + [half]
        x = {"array": np.array(xs, dtype=float), "list": list(xs), "tuple": tuple(xs)}[c["kind"]]
    xv = np.array(xs, dtype=float)
    H = np.asarray(lib(U.rcos, x, alpha, T), dtype=float)
    check(H.shape == xv.shape, "rcos-shape", f"{H.shape}")
    check(np.all((H >= 0) & (H <= 1)), "rcos-out-of-[0,1]", f"{H}")
    # reference (independent evaluation in float64)
    ax = np.abs(xv)
    lo, hi = (1 - alpha) / (2 * T), (1 + alpha) / (2 * T)
    ref = np.where(ax <= lo, 1.0, np.where(ax > hi, 0.0, 0.0))
    mid = (ax > lo) & (ax <= hi)
    if alpha > 0:
        ref = np.where(mid, 0.5 * (1 + np.cos(np.pi * T / alpha * (ax - lo))), ref)
    check(np.allclose(H, ref, rtol=0, atol=1e-9), "rcos!=definition", f"x={xs} alpha={alpha} T={T} got {H.tolist()} want {ref.tolist()}")
    if alpha > 0:
        check(abs(H[-1] - 0.5) <= 1e-9, "rcos(1/2T)!=0.5", f"alpha={alpha} T={T} x={xs[-1]!r} -> {H[-1]}")
    beyond = ax > hi * (1 + 1e-12)
    check(np.all(H[beyond] == 0), "rcos-nonzero-beyond-band", "")
    # even
    xm = -np.array(xs, dtype=np.int64) if c["kind"] == "intarray" else ([-v for v in xs] if isinstance(x, list) else tuple(-v for v in xs) if isinstance(x, tuple) else -np.array(xs, dtype=float))
    Hm = np.asarray(lib(U.rcos, xm, alpha, T), dtype=float)
    check(np.allclose(H, Hm, rtol=0, atol=1e-12), "rcos-not-even", "")
    # scalar == array evaluation
    for v, h in zip(xs, H):
        hs = float(lib(U.rcos, (int(v) if integer else float(v)), alpha, T))
        check(abs(hs - h) <= 1e-12, "rcos-scalar!=array", f"x={v!r} alpha={alpha} T={T}: scalar {hs} array {h}")
    return {"nontrivial": bool(mid.any()) and len(xs) > 2, "classes": [c["kind"], "alpha0" if alpha == 0 else "alpha>0"]}


# --------------------------------------------------------------------------------------------------
# dec2bin (exhaustive)

DMAX = 16


def enum_dec2bin(tier, shard, nshards):
    for d in range(1, DMAX + 1):
        yield {"d": d, "all": True}
    rs = np.random.RandomState(12345)
    for d in range(0, DMAX + 1):
        for v in (2 ** d, 2 ** d + 1, 2 ** d + int(rs.randint(2, 10 ** 6)), 2 ** (d + 7)):
            yield {"d": d, "v": int(v)}
    yield {"d": 8, "default": True}


def e_dec2bin(c):
    d = c["d"]
    if c.get("default"):
        r = lib(U.dec2bin, 37)
        check(list(r) == [0, 0, 1, 0, 0, 1, 0, 1] and r.dtype == np.uint8, "dec2bin-default-digits", f"{r}")
        return {"nontrivial": True}
    if c.get("all"):
        shifts = np.arange(d - 1, -1, -1)
        for v in range(2 ** d):
            r = lib(U.dec2bin, v, d)
            ok = isinstance(r, np.ndarray) and r.shape == (d,) and r.dtype == np.uint8 and np.array_equal(r, (v >> shifts) & 1)
            check(ok, "dec2bin!=big-endian", f"dec2bin({v},{d}) = {r!r}")
            if v % 13 == 0 or v < 4:
                # the caller owns the result: scribbling on it must not change what a later call returns
                try:
                    r ^= 1
                except ValueError:
                    raise Violation("dec2bin-result-not-writable", f"dec2bin({v},{d})") from None
                r2 = lib(U.dec2bin, v, d)
                check(np.array_equal(r2, (v >> shifts) & 1) and not np.shares_memory(r, r2), "dec2bin-results-alias-each-other", f"dec2bin({v},{d}) after the previous result was modified: {r2!r}")
        # numpy integer input on a sample
        for v in {0, 1, 2 ** d - 1, (2 ** d) // 3}:
            r = lib(U.dec2bin, np.int64(v), d)
            check(np.array_equal(r, (v >> shifts) & 1), "dec2bin-npint", f"dec2bin(np.int64({v}),{d}) = {r!r}")
        return {"nontrivial": d >= 2, "classes": ["full-d"], "weight": 2 ** d}
    raises(ValueError, U.dec2bin, c["v"], d, tag="dec2bin-too-large-accepted")
    return {"nontrivial": True, "classes": ["too-large"]}


# --------------------------------------------------------------------------------------------------
# str2array

SEPS = [",", " ", ", ", "  ", " , "]
ROWS = [";", "; ", " ; "]


@st.composite
def s_s2a(draw):
    kind = draw(st.sampled_from(["int", "float", "complex", "bits", "int01", "bigint", "int01long"]))
    rows = draw(st.sampled_from([1, 1, 2, 3]))
    n = draw(st.integers(1, 6))
    if kind == "int":
        vals = draw(st.lists(st.integers(-10 ** 6, 10 ** 6), min_size=rows * n, max_size=rows * n))
    elif kind == "bigint":
        # "any int array": the whole int64 range, dense around 2^53 (where a detour through float64 starts to round) and at both ends
        big = st.one_of(st.integers(-2 ** 63, 2 ** 63 - 1), st.integers(-40, 40).map(lambda k: 2 ** 53 + k), st.integers(-40, 40).map(lambda k: -2 ** 53 + k),
                        st.integers(0, 2000).map(lambda k: 2 ** 63 - 1 - k), st.integers(0, 2000).map(lambda k: -2 ** 63 + k), st.integers(54, 62).map(lambda e: 2 ** e + 1))
        vals = draw(st.lists(big, min_size=rows * n, max_size=rows * n))
    elif kind == "float":
        vals = draw(st.lists(st.floats(-1e6, 1e6, allow_nan=False).map(lambda v: round(v, 6)), min_size=rows * n, max_size=rows * n))
    elif kind == "complex":
        vals = draw(st.lists(st.tuples(st.floats(-1e4, 1e4).map(lambda v: round(v, 4)), st.floats(-1e4, 1e4).map(lambda v: round(v, 4))),
                             min_size=rows * n, max_size=rows * n))
    elif kind == "bits":
        vals = draw(st.lists(st.integers(0, 1), min_size=rows * n, max_size=rows * n))
    elif kind == "int01long":
        # numbers written with the digits 0 and 1 whose digit count exceeds what a 64-bit integer holds: meaningful with dtype float / complex
        long01 = st.integers(1, 2 ** 40).map(lambda v: int(bin(v)[2:])).filter(lambda v: v >= 10 ** 15)
        vals = draw(st.lists(st.one_of(long01, st.sampled_from([10 ** 19, 10 ** 20 + 1, 10 ** 18, 1, 0, 11])), min_size=rows * n, max_size=rows * n))
    else:  # numbers written only with the digits 0 and 1
        vals = draw(st.lists(st.sampled_from([0, 1, 10, 11, 100, 101, 110, 111, 1000]), min_size=rows * n, max_size=rows * n))
    return {"kind": kind, "rows": rows, "n": n, "vals": vals, "sep": draw(st.sampled_from(SEPS)), "rsep": draw(st.sampled_from(ROWS)),
            "unit": draw(st.sampled_from(["j", "i"])), "glue": draw(st.booleans()),
            "dtype": draw(st.sampled_from(["float", "complex"])) if kind == "int01long" else draw(st.sampled_from([None, None, "int", "float", "complex", "bool"])), "fmt": draw(st.sampled_from(["%.6f", "%.4f", "%.1f"])),
            "dtform": draw(st.sampled_from(["builtin", "builtin", "np.dtype", "str"]))}      # the dtype as int / np.dtype(int) / 'int' ... (all equal to the builtin)


def _render(c):
    kind, rows, n = c["kind"], c["rows"], c["n"]
    vals = c["vals"]
    if kind in ("int", "int01", "bigint", "int01long"):
        toks = ["%d" % v for v in vals]
    elif kind == "float":
        toks = [c["fmt"] % v for v in vals]
    elif kind == "complex":
        toks = [("%.4f%+.4f" % (a, b)) + c["unit"] for a, b in vals]
    else:
        toks = ["%d" % v for v in vals]
    sep = c["sep"]
    if kind == "bits" and c["glue"]:
        sep = ""
    lines = [sep.join(toks[r * n:(r + 1) * n]) for r in range(rows)]
    return c["rsep"].join(lines), toks


DTYPES = {"int": int, "float": float, "complex": complex, "bool": bool, None: None}


def e_s2a(c):
    text, toks = _render(c)
    kind, rows, n = c["kind"], c["rows"], c["n"]
    shape = (n,) if rows == 1 else (rows, n)
    dt = DTYPES[c["dtype"]]
    # what the text denotes
    if kind == "complex":
        num = np.array([complex(float("%.4f" % a), float("%.4f" % b)) for a, b in c["vals"]]).reshape(shape)
        natural = complex
    elif kind == "float":
        num = np.array([float(t) for t in toks], dtype=float).reshape(shape)
        natural = float
    elif kind == "int01long":
        num = np.array([float(int(t)) for t in toks], dtype=float).reshape(shape)      # int -> float: correctly rounded, like float(text)
        natural = int
    else:
        num = np.array([int(t) for t in toks], dtype=np.int64).reshape(shape)
        natural = int
    only01 = re.fullmatch(r"[01,;\s]+", text) is not None
    if only01 and (dt is None or dt is bool):
        digits = [[int(ch) for ch in line if ch in "01"] for line in text.split(";")]
        if len({len(x) for x in digits}) != 1:  # rows with different digit counts cannot form an array
            return {"nontrivial": False, "classes": ["ragged-bits-skipped"]}
    if dt is None:
        r0 = lib(U.str2array, text)
        if r0.size:                      # the caller owns the result: a later identical call returns a fresh, correct array
            try:
                r0[...] = ~r0 if r0.dtype == np.bool_ else r0 + 1
            except ValueError:
                raise Violation("str2array-result-not-writable", repr(text)) from None
        r = lib(U.str2array, text)
        check(not np.shares_memory(r, r0), "str2array-results-alias-each-other", repr(text))
        if only01:
            digits = [[int(ch) for ch in line if ch in "01"] for line in text.split(";")]
            if len({len(x) for x in digits}) != 1:
                return {"nontrivial": False, "classes": ["ragged-bits-skipped"]}
            want = np.array(digits[0] if rows == 1 else digits, dtype=bool)
            check(isinstance(r, np.ndarray) and r.dtype == np.bool_, "str2array-bits-dtype", f"{text!r} -> {getattr(r, 'dtype', None)}")
            check(r.shape == want.shape and np.array_equal(r, want), "str2array-bits-values", f"{text!r} -> {r!r}")
        else:
            check(isinstance(r, np.ndarray) and r.shape == shape, "str2array-shape", f"{text!r} -> shape {getattr(r, 'shape', None)} want {shape}")
            check(np.issubdtype(r.dtype, {int: np.integer, float: np.floating, complex: np.complexfloating}[natural]),
                  "str2array-inferred-dtype", f"{text!r} -> {r.dtype}, want {natural.__name__}")
            if natural is int:
                check(np.array_equal(r, num), "str2array-int-values", f"{text!r} -> {r!r}")
            else:
                check(np.allclose(r, num, rtol=1e-12, atol=1e-12), "str2array-values", f"{text!r} -> {r!r}")
    else:
        if (dt in (int, bool, float) and natural is complex) or (dt is int and natural is float):
            return {"nontrivial": False, "classes": ["narrowing-dtype-skipped"]}
        dt_arg = dt
        if dt in (int, float, complex) and c.get("dtform") == "np.dtype":
            dt_arg = np.dtype(dt)           # e.g. other_array.dtype: compares equal to the builtin type
        r = lib(U.str2array, text, dt_arg)
        want_dt = {int: np.integer, float: np.floating, complex: np.complexfloating, bool: np.bool_}[dt]
        check(isinstance(r, np.ndarray) and np.issubdtype(r.dtype, want_dt), "str2array-explicit-dtype", f"{text!r},{c['dtype']} -> {getattr(r, 'dtype', None)}")
        if only01 and dt is bool:
            digits = [[int(ch) for ch in line if ch in "01"] for line in text.split(";")]
            if len({len(x) for x in digits}) != 1:
                return {"nontrivial": False, "classes": ["ragged-bits-skipped"]}
            want = np.array(digits[0] if rows == 1 else digits, dtype=bool)
            check(r.shape == want.shape and np.array_equal(r, want), "str2array-bits-values", f"{text!r},bool -> {r!r}")
        elif only01 and c["glue"] and kind == "bits":
            pass  # glued digits with a numeric dtype denote one number per row; not part of the statement
        else:
            check(r.shape == shape, "str2array-shape", f"{text!r},{c['dtype']} -> {r.shape} want {shape}")
            if natural is int and dt is int:
                check(np.array_equal(r, num), "str2array-int-values", f"{text!r},int -> {r!r}")
            check(np.allclose(r.astype(complex), num.astype(dt).astype(complex), rtol=1e-12, atol=1e-12), "str2array-dtype-values",
                  f"{text!r},{c['dtype']} -> {r!r}")
    return {"nontrivial": rows > 1 or kind == "complex" or dt is not None,
            "classes": [kind, f"rows{rows}", f"dtype={c['dtype']}", "only01" if only01 else "numeric"]}


BAD = list("abcdefghklmnopqrstuvwxyzABCDEFGHIJKXYZ#()[]{}*/=_'\"!?%&|<>~^:@$\\")


@st.composite
def s_s2a_bad(draw):
    base = draw(s_s2a())
    ch = draw(st.sampled_from(BAD))
    pos = draw(st.integers(0, 200))
    return {"base": base, "ch": ch, "pos": pos}


def e_s2a_bad(c):
    text, _ = _render(c["base"])
    p = c["pos"] % (len(text) + 1)
    bad = text[:p] + c["ch"] + text[p:]
    raises(ValueError, U.str2array, bad, tag="str2array-invalid-char-accepted")
    dt = DTYPES[c["base"]["dtype"]]
    if dt is not None:
        raises(ValueError, U.str2array, bad, dt, tag="str2array-invalid-char-accepted")
    return {"nontrivial": True, "classes": [c["base"]["kind"]]}


ALPHA = list("01") * 4 + list("23456789") + list(",; .+-ji") * 2 + ["e", "x", "\t", "\n", "\u0661", "\u0969", "\uff12", "\u00b2", "\u00a0"]
#        (... plus decimal digits of other scripts - Arabic-Indic 1, Devanagari 3, fullwidth 2 -, a superscript 2 and a no-break space: not in the grammar)


def e_s2a_fuzz(c):
    """Validity predicate over arbitrary text on (mostly) the grammar's alphabet: a bool/int/float/complex ndarray, or
    ValueError - nothing else."""
    text = c["text"]
    dt = DTYPES[c.get("dtype")]
    try:
        r = U.str2array(text) if dt is None else U.str2array(text, dt)
    except ValueError:
        return {"nontrivial": True, "classes": ["rejected"]}
    except OverflowError:
        if re.search(r"\d{19,}", text):      # integer literal beyond 64 bits: not the text of any integer array
            return {"nontrivial": False, "classes": ["int-literal-beyond-64-bits"]}
        raise Violation("str2array-wrong-exception", f"{text!r} raised OverflowError") from None
    except Exception as e:  # noqa: BLE001
        raise Violation("str2array-wrong-exception", f"{text!r} raised {type(e).__name__}: {e}") from None
    check(isinstance(r, np.ndarray) and r.dtype.kind in "biufc", "str2array-bad-result", f"{text!r} -> {type(r).__name__} {getattr(r, 'dtype', '')}")
    if re.search(r"[^0-9,;.+\-\sji]", text):
        raise Violation("str2array-invalid-char-accepted", f"{text!r} parsed to {r!r}")
    return {"nontrivial": True, "classes": ["parsed", f"kind-{r.dtype.kind}"]}


s_fuzz = st.fixed_dictionaries({"text": st.lists(st.sampled_from(ALPHA), min_size=0, max_size=24).map("".join),
                                "dtype": st.sampled_from([None, None, None, "int", "float", "complex", "bool"])})

# --------------------------------------------------------------------------------------------------
# si

PREFIX = {"f": -15, "p": -12, "n": -9, "μ": -6, "u": -6, "µ": -6, "m": -3, "": 0, "k": 3, "M": 6, "G": 9, "T": 12}


@st.composite
def s_si(draw):
    mode = draw(st.sampled_from(["log", "edge", "edge-", "edge+", "int"]))
    e = draw(st.integers(-15, 14))
    if mode == "log":
        x = 10.0 ** draw(st.floats(-15, 15, exclude_max=True, allow_nan=False))
        x = max(x, 1e-15)
    elif mode == "edge":
        x = float("1e%d" % e)
    elif mode == "edge-":
        x = float(np.nextafter(float("1e%d" % (e + 1)), 0.0))
    elif mode == "edge+":
        x = float(np.nextafter(float("1e%d" % e), np.inf))
    else:
        x = draw(st.integers(1, 10 ** 15 - 1))
    return {"x": x, "k": draw(st.integers(0, 4)), "unit": draw(st.sampled_from(["Hz", "s", "m", "W", "b/s"])), "mode": mode,
            "default_k": draw(st.booleans())}


def e_si(c):
    x, k, unit = c["x"], c["k"], c["unit"]
    if c["default_k"]:
        out = lib(U.si, x, unit)
        k = 1
    else:
        out = lib(U.si, x, unit, k)
    check(isinstance(out, str), "si-not-a-string", f"si({x!r}) -> {out!r}")
    m = re.fullmatch(r"(-?\d+(?:\.(\d+))?) (.?)" + re.escape(unit), out)
    check(m is not None, "si-format", f"si({x!r},{unit!r},{k}) -> {out!r}")
    mant, decimals, pre = m.group(1), m.group(2) or "", m.group(3)
    check(pre in PREFIX, "si-unknown-prefix", f"{out!r}")
    check(len(decimals) == k, "si-precision", f"{out!r} has {len(decimals)} decimals, want {k}")
    p = PREFIX[pre]
    from fractions import Fraction
    X = Fraction(x)
    scale = Fraction(10) ** p
    err = abs(Fraction(mant) * scale - X)
    bound = Fraction(1, 2) * Fraction(10) ** (-k) * scale * (1 + Fraction(1, 10 ** 9))
    check(err <= bound, "si-mantissa*prefix!=x", f"si({x!r},{unit!r},{k}) -> {out!r}: |{mant}e{p} - x| = {float(err):.3e} > {float(bound):.3e}")
    # unrounded mantissa in [1, 1000): decided with the decade boundaries as the floats they are (x and 10^p are both doubles, so
    # the comparison 1e<p> <= x < 1e<p+3> is exact and needs no tolerance; nextafter(1e3, 0) must still print without prefix)
    lo_, hi_ = float("1e%d" % p), float("1e%d" % (p + 3))
    check(lo_ <= x and (x < hi_ or p == 12), "si-mantissa-range", f"si({x!r}) -> {out!r}: x is not in [1e{p}, 1e{p + 3})")
    return {"nontrivial": c["mode"] != "log" or k != 1, "classes": [c["mode"], f"prefix:{pre or '-'}"]}


PARTS = [
    Part("db", e_db, s_db(), quick=600, thorough=16000, shards=4, rule="non-trivial: >=2 elements or |log10 x|>3"),
    Part("q_gaus", e_q, s_q(), quick=300, thorough=8000, shards=4, rule="non-trivial: >=3 evaluation points"),
    Part("rcos", e_rcos, s_rcos(), quick=800, thorough=20000, shards=4, rule="non-trivial: a point inside the roll-off band and >2 points"),
    Part("dec2bin", e_dec2bin, kind="enum", enum=enum_dec2bin, shards=1, exhaustive=True,
         rule="exhaustive: every (v,d), d<=16, 0<=v<2^d, plus too-large v; one case per d covers 2^d values"),
    Part("str2array", e_s2a, s_s2a(), quick=1500, thorough=32000, shards=8, rule="non-trivial: 2-D, complex or explicit dtype"),
    Part("str2array_bad", e_s2a_bad, s_s2a_bad(), quick=600, thorough=12000, shards=4, rule="valid rendering + one character outside the grammar"),
    Part("str2array_fuzz", e_s2a_fuzz, s_fuzz, quick=1500, thorough=80000, shards=8, rule="arbitrary text over the grammar alphabet; validity predicate"),
    Part("str2array_atheris", eval_text("str2array"), kind="custom", custom=lambda ctx, n: run_campaign(ctx, "str2array", n), quick=0, thorough=150000, shards=4, only_tier="thorough",
         rule="coverage-guided (atheris/libFuzzer) campaigns over bytes decoded onto the grammar alphabet, empty corpus and seeded corpus; oracle inside the target; thorough tier only"),
    Part("si", e_si, s_si(), quick=1500, thorough=32000, shards=4, rule="non-trivial: decade boundary/nextafter/int input or k!=1"),
]
