"""C05 - DAC waveforms are slot-exact and SAMPLER inverts them."""
import numpy as np
from hypothesis import strategies as st

from ..core import check, lib, raises, Guard
from ..lib import reset, gv, D, electrical_signal, binary_sequence
from ..runner import Part
from ..sigs import contract
from .c15 import container

RULE = ("bit words in every container form x sps 2..128 x Vout/bias in (-48,48) x pulse shape; per-slot sample oracle (NRZ/RZ exact), isolated-pulse "
        "peak/amplitude/width measurements (Gaussian), SAMPLER stride oracle and bit recovery; documented error paths; "
        "non-trivial: odd sps, or bias!=0 with negative Vout, or RZ, or Gaussian with m>1")
ASSUMPTIONS = [
    "Gaussian half-maximum width is measured on the amplitude envelope |x-bias|/|Vout| by linear interpolation, compared with T within 1+0.05 samples "
    "(the two-impulse construction widens the pulse by exactly one sample; 0.05 is measurement slack)",
    "bit recovery from Gaussian pulses is asserted for unchirped pulses (c=0) with T=sps",
]
FORMS = ["str", "str_sp", "str_comma", "list", "tuple", "arr_int", "arr_bool", "arr_u8", "bs"]

volt = st.one_of(st.floats(-47.9, 47.9, allow_nan=False), st.integers(-47, 47), st.sampled_from([1.0, -1.0, 0.5, 5.0, 1e-3, -1e-3, 47.99, -47.99]))


@st.composite
def s_dac(draw):
    return {"bits": draw(st.lists(st.integers(0, 1), min_size=1, max_size=64)), "form": draw(st.sampled_from(FORMS)),
            "sps": draw(st.one_of(st.integers(2, 128), st.sampled_from([2, 3, 4, 5, 7, 8, 15, 16, 17, 127, 128]))),
            "Vout": draw(volt.filter(lambda v: v != 0)), "bias": draw(st.one_of(volt, st.just(0.0), st.just(0))),
            "shape": draw(st.sampled_from(["nrz", "rect", "NRZ", "rz", "RZ"])), "k": draw(st.integers(0, 127)),
            "nseed": draw(st.integers(0, 2 ** 31 - 1)), "prior": draw(st.booleans()), "R": draw(st.sampled_from([1e9, 1e9, 2.5e9, 1e9 / 3, 0.1, 1e9 / 7, 333.3, 7e9 / 9, 1e10 / 3, 1e6 / 11]))}


def e_dac(c):
    reset()
    sps = c["sps"]
    bits = np.array(c["bits"])
    prior = "-"
    if c.get("prior"):
        # an earlier frame in the same process with the SAME number of samples but another slot width (same shape family)
        tot = len(bits) * sps
        divs = [d for d in range(2, 129) if tot % d == 0 and d != sps]
        if divs:
            sps0 = divs[c["nseed"] % len(divs)]
            gv(sps=sps0, R=1e9)
            lib(D.DAC, np.random.RandomState(c["nseed"]).randint(0, 2, tot // sps0), 0.25, -1.5, c["shape"])
            prior = "prior-frame-same-size-other-sps"
    gv(sps=sps, R=c.get("R", 1e9))         # slot rates that are not whole numbers too (fs/R then need not be exactly sps in floating point)
    Vout, bias = c["Vout"], c["bias"]
    arg = container(bits, c["form"])
    g = Guard()
    if c["form"] == "bs":
        g.add_bits("bits", arg)
    elif isinstance(arg, np.ndarray):
        g.add("bits", arg)
    x = lib(D.DAC, arg, bias, Vout, c["shape"])
    contract(x, "E", 1, len(bits) * sps, "DAC output")
    check(x.noise is None, "dac-added-noise", "")
    s = x.signal
    slots = s.reshape(len(bits), sps)
    on = bias + Vout * bits
    rz = c["shape"].lower() == "rz"
    if not rz:
        check(bool(np.all(slots == on[:, None])), "nrz-sample!=bias+Vout*bit", f"sps={sps} Vout={Vout} bias={bias}")
    else:
        h = sps // 2
        check(bool(np.all(slots[:, :h] == on[:, None])), "rz-first-half!=bias+Vout*bit", f"sps={sps}")
        check(bool(np.all(slots[:, h:] == bias)), "rz-second-half!=bias", f"sps={sps}")
    # container independence
    ref = lib(D.DAC, bits.astype(np.uint8), bias, Vout, c["shape"])
    check(np.array_equal(ref.signal, s), "dac-container-dependent", c["form"])
    check(sps == gv.sps, "dac-changed-gv", "")
    g.verify()
    g.no_alias([("DAC.signal", s)])
    g.release()
    # SAMPLER: stride oracle on signal and noise, then bit recovery
    k = c["k"] % sps
    rs = np.random.RandomState(c["nseed"])
    noisy = electrical_signal(s.copy(), rs.standard_normal(s.size))
    g = Guard()
    g.add_signal("x", noisy)
    y = lib(D.SAMPLER, noisy, k)
    contract(y, "E", 1, len(bits), "SAMPLER output")
    check(np.array_equal(y.signal, noisy.signal[k::sps]), "sampler-signal!=x[k::sps]", f"k={k} sps={sps}")
    check(y.noise is not None and np.array_equal(y.noise, noisy.noise[k::sps]), "sampler-noise!=n[k::sps]", f"k={k} sps={sps}")
    g.verify()
    g.no_alias([("SAMPLER.signal", y.signal), ("SAMPLER.noise", y.noise)])
    g.release()
    if abs(Vout) >= 1e-3 and (not rz or k < sps // 2):
        smp = lib(D.SAMPLER, x, k).signal.real
        rec = ((smp - (bias + Vout / 2)) * np.sign(Vout) > 0).astype(int)
        check(np.array_equal(rec, bits), "sampled-bits!=input", f"shape={c['shape']} k={k} sps={sps} Vout={Vout} bias={bias}")
    nt = sps % 2 == 1 or (bias != 0 and Vout < 0) or rz
    return {"nontrivial": bool(nt), "classes": [c["shape"].lower(), c["form"], "odd-sps" if sps % 2 else "even-sps", "neg-Vout" if Vout < 0 else "pos-Vout", prior]}


@st.composite
def s_gauss(draw):
    sps = draw(st.one_of(st.integers(8, 128), st.sampled_from([8, 9, 15, 16, 17, 32, 33, 64, 128])))
    T = draw(st.integers((sps + 1) // 2, 2 * sps))
    nbits = draw(st.integers(5, 12))
    return {"sps": sps, "T": T, "m": draw(st.integers(1, 4)), "c": draw(st.one_of(st.just(0.0), st.just(0), st.floats(-2, 2))),
            "nbits": nbits, "pos": draw(st.integers(2, nbits - 3)), "Vout": draw(volt.filter(lambda v: abs(v) >= 1e-3)),
            "bias": draw(st.one_of(st.just(0.0), volt)), "word": draw(st.lists(st.integers(0, 1), min_size=4, max_size=40)),
            "default_T": draw(st.booleans()), "prior_c": draw(st.one_of(st.just(0.0), st.floats(0.3, 2), st.floats(-2, -0.3)))}


def e_gauss(c):
    reset()
    sps, T, m, ch = c["sps"], c["T"], c["m"], c["c"]
    gv(sps=sps, R=1e9)
    bits = np.zeros(c["nbits"], dtype=int)
    bits[c["pos"]] = 1
    Vout, bias = c["Vout"], c["bias"]
    x = lib(D.DAC, bits, bias, Vout, "gaussian", T=T, m=m, c=ch)
    contract(x, "E", 1, len(bits) * sps, "DAC(gaussian)")
    env = np.abs(x.signal - bias) / abs(Vout)
    centre = c["pos"] * sps + (sps - 1) / 2
    # isolated-pulse measurements are meaningful when the pulse fits between the record ends
    pk = int(np.argmax(env))
    tied = np.flatnonzero(env >= env[pk] * (1 - 1e-12))
    check(bool(np.any(np.abs(tied - centre) <= 1.0)), "gaussian-peak-off-centre", f"sps={sps} T={T} m={m}: argmax {tied.tolist()[:4]} centre {centre}")
    check(abs(env[pk] - 1.0) <= 0.05, "gaussian-peak!=Vout", f"sps={sps} T={T} m={m}: peak {env[pk]:.4f} of Vout")
    half = env[pk] / 2
    above = np.flatnonzero(env >= half)
    lo, hi = above[0], above[-1]
    if lo > 0 and hi < env.size - 1:
        left = lo - (env[lo] - half) / (env[lo] - env[lo - 1])
        right = hi + (env[hi] - half) / (env[hi] - env[hi + 1])
        width = right - left
        check(abs(width - T) <= 1.05, "gaussian-width!=T", f"sps={sps} T={T} m={m} c={ch}: FWHM {width:.4f}")
    # default T is the slot width; bits are recovered at the slot centre for unchirped pulses
    if abs(ch) >= 0.3:
        # the chirp asked for NOW is applied (whatever pulse an earlier call in this process used): phase -c/2*(t/T0)^(2m) away from the peak
        ph = (x.signal - bias) / Vout
        k_ = np.arange(ph.size) - centre
        far = (np.abs(k_) > 0.3 * T) & (np.abs(ph) > 0.05)
        if far.any() and np.abs(ph[far].imag).max() <= 1e-9:
            check(False, "chirped-gaussian-is-real", f"sps={sps} T={T} m={m} c={ch}: no imaginary part anywhere on the pulse flanks")
    word = np.array(c["word"])
    if c.get("prior_c"):
        # an earlier CHIRPED pulse train with the same slot width, pulse width and order in this process; the unchirped one below is still unchirped
        lib(D.DAC, word, bias, Vout, "gaussian", T=sps, m=1, c=c["prior_c"])
    y = lib(D.DAC, word, bias, Vout, "gaussian") if c["default_T"] else lib(D.DAC, word, bias, Vout, "gaussian", T=sps)
    contract(y, "E", 1, len(word) * sps, "DAC(gaussian)")
    smp = lib(D.SAMPLER, y, sps // 2).signal
    check(np.all(np.abs(smp.imag) <= 1e-12 * max(1.0, abs(Vout))), "unchirped-gaussian-not-real", "")
    rec = ((smp.real - (bias + Vout / 2)) * np.sign(Vout) > 0).astype(int)
    check(np.array_equal(rec, word), "sampled-bits!=input", f"gaussian T=sps={sps} Vout={Vout} bias={bias} word={word.tolist()}")
    return {"nontrivial": m > 1 or sps % 2 == 1, "classes": [f"m{m}", "odd-sps" if sps % 2 else "even-sps", "chirp" if ch else "unchirped",
                                                              "T<sps" if T < sps else "T=sps" if T == sps else "T>sps",
                                                              "after-chirped-call" if c.get("prior_c") else "no-prior"]}


s_err = st.fixed_dictionaries({"sps": st.integers(2, 32), "what": st.sampled_from(
    ["Vout>=48", "bias>=48", "Vout-type", "bias-type", "T-float", "T-zero", "T-neg", "T-big", "m-float", "m-zero", "m-neg", "c-complex", "c-str", "shape"]),
    "v": st.floats(48, 1e6), "sign": st.sampled_from([1, -1]), "shape": st.sampled_from(["sinc", "", "gauss", "nrZ", "rc", "square", "Gaussian", None, 3])})


def e_err(c):
    reset()
    sps = c["sps"]
    gv(sps=sps, R=1e9)
    bits = [0, 1, 1, 0]
    w = c["what"]
    big = c["sign"] * c["v"]
    if w == "Vout>=48":
        for sh in ("nrz", "rz", "gaussian"):
            raises(ValueError, D.DAC, bits, 0.0, big, sh, tag="Vout-out-of-range-accepted")
        raises(ValueError, D.DAC, bits, 0.0, 48 * c["sign"], tag="Vout-out-of-range-accepted")
    elif w == "bias>=48":
        raises(ValueError, D.DAC, bits, big, 1.0, tag="bias-out-of-range-accepted")
        raises(ValueError, D.DAC, bits, 48.0 * c["sign"], 1.0, tag="bias-out-of-range-accepted")
    elif w == "Vout-type":
        for v in ("5", 1 + 1j, [1.0], (2,), 5 + 0j, 0j, complex(0.5, 0.0), np.complex128(1 + 0j), None.__class__):
            raises(TypeError, D.DAC, bits, 0.0, v, tag="Vout-type-accepted")
    elif w == "bias-type":
        for v in ("5", 1 + 1j, [1.0], 1 + 0j, 0j, np.complex128(2 + 0j)):
            raises(TypeError, D.DAC, bits, v, 1.0, tag="bias-type-accepted")
    elif w == "T-float":
        raises(TypeError, D.DAC, bits, 0.0, 1.0, "gaussian", T=float(sps), tag="T-float-accepted")
        raises(TypeError, D.DAC, bits, 0.0, 1.0, "gaussian", T="8", tag="T-float-accepted")
    elif w == "T-zero":
        raises(ValueError, D.DAC, bits, 0.0, 1.0, "gaussian", T=0, tag="T-out-of-range-accepted")
    elif w == "T-neg":
        raises(ValueError, D.DAC, bits, 0.0, 1.0, "gaussian", T=-sps, tag="T-out-of-range-accepted")
    elif w == "T-big":
        raises(ValueError, D.DAC, bits, 0.0, 1.0, "gaussian", T=2 * sps + 1, tag="T-out-of-range-accepted")
    elif w == "m-float":
        raises(TypeError, D.DAC, bits, 0.0, 1.0, "gaussian", m=2.0, tag="m-float-accepted")
    elif w == "m-zero":
        raises(ValueError, D.DAC, bits, 0.0, 1.0, "gaussian", m=0, tag="m-out-of-range-accepted")
    elif w == "m-neg":
        raises(ValueError, D.DAC, bits, 0.0, 1.0, "gaussian", m=-1, tag="m-out-of-range-accepted")
    elif w == "c-complex":
        for v in (1j, 0.5 + 0j, 0j, np.complex128(1 + 0j)):
            raises(TypeError, D.DAC, bits, 0.0, 1.0, "gaussian", c=v, tag="c-type-accepted")
    elif w == "c-str":
        raises(TypeError, D.DAC, bits, 0.0, 1.0, "gaussian", c="0.5", tag="c-type-accepted")
    else:
        raises((ValueError, TypeError), D.DAC, bits, 0.0, 1.0, c["shape"], tag="unknown-shape-accepted")
    return {"nontrivial": True, "classes": [w]}


@st.composite
def s_samp(draw):
    sps = draw(st.integers(1, 64))
    k = draw(st.integers(0, sps - 1))
    return {"sps": sps, "k": k, "n": draw(st.integers(k + 1, k + 1 + 40 * sps)), "seed": draw(st.integers(0, 2 ** 31 - 1)),
            "noise": draw(st.booleans()), "dt": draw(st.sampled_from(["f", "c", "i"])), "R": draw(st.sampled_from([1e9, 1e9, 2.5e9, 1e9 / 3, 0.1, 1e9 / 7, 333.3, 7e9 / 9, 1e10 / 3, 1e6 / 11]))}


def e_samp(c):
    reset()
    sps, k = c["sps"], c["k"]
    gv(sps=sps, R=c.get("R", 1e9))
    rs = np.random.RandomState(c["seed"])
    mkv = (lambda: rs.randint(-9, 10, c["n"])) if c["dt"] == "i" else (lambda: rs.standard_normal(c["n"]) + (1j * rs.standard_normal(c["n"]) if c["dt"] == "c" else 0))
    s, n = mkv(), (mkv() if c["noise"] else None)
    x = electrical_signal(s, n)
    g = Guard()
    g.add_signal("x", x)
    y = lib(D.SAMPLER, x, k)
    contract(y, "E", 1, len(range(k, c["n"], sps)), "SAMPLER output")
    check(np.array_equal(y.signal, x.signal[k::sps]), "sampler-signal!=x[k::sps]", f"k={k} sps={sps}")
    check((y.noise is None) == (n is None), "noise-presence", "")
    if n is not None:
        check(np.array_equal(y.noise, x.noise[k::sps]), "sampler-noise!=n[k::sps]", f"k={k} sps={sps}")
    g.verify()
    g.no_alias([("SAMPLER.signal", y.signal), ("SAMPLER.noise", y.noise)])
    g.release()
    return {"nontrivial": c["noise"] or c["n"] % sps != 0, "classes": ["noise" if c["noise"] else "clean", "partial-slot" if c["n"] % sps else "whole-slots"]}


PARTS = [
    Part("dac", e_dac, s_dac(), quick=1500, thorough=64000, shards=8, rule="NRZ/RZ slot oracle, container equivalence, SAMPLER stride + bit recovery"),
    Part("gauss", e_gauss, s_gauss(), quick=800, thorough=40000, shards=8, rule="isolated Gaussian pulse: peak position/amplitude/width; bit recovery at T=sps"),
    Part("errors", e_err, s_err, quick=250, thorough=8000, shards=2, rule="documented TypeError/ValueError paths"),
    Part("sampler", e_samp, s_samp(), quick=600, thorough=32000, shards=4, rule="arbitrary records (partial last slot, complex/int dtypes, noise)"),
]
