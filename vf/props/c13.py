"""C13 - analytic BER and receiver-noise formulas match closed forms and each other."""
import numpy as np
import scipy.signal as sg
from hypothesis import strategies as st
from scipy import optimize, stats
from scipy.constants import k as KB, e as QE, h as HP, c as CL

from ..core import check, lib, raises
from ..lib import reset, gv, U, D, OOK, PPM, eye, optical_signal
from ..runner import Part
from ..sigs import s_gv, apply_gv

RULE = ("(mu, s0, s1, M, decision) over the quantifier's ranges incl. equal sigmas; eye objects with offsets; receiver parameter sets whose P_avg is solved "
        "from a drawn target Q-factor so that compared BERs lie in [1e-12, 0.4]; oracle: independent scipy evaluation (norm.sf, minimize_scalar, trapezoid "
        "quadrature) of the same physical formulas and a harness-side receiver model; device agreement through long PD/EDFA realisations; "
        "non-trivial: shot or beating noise contributes >= 10% of a variance, or unequal sigmas")
ASSUMPTIONS = [
    "grid-minimum formulas are held to the rigorous bracket f(r*)(1-1e-9) <= value <= max(f(r*-d), f(r*+d)) with d the grid step",
    "soft-decision integrals are compared to a piecewise adaptive quadrature that is told where the integrand's step lies, to 1e-6 absolute",
    "optimum_threshold is not held to lie in [mu0, mu1] (the MAP threshold legitimately leaves the interval at low SNR / large M); that clause is applied "
    "to the grid-bounded THRESHOLD_EST helpers",
]
Qf = stats.norm.sf
ORD = [2, 4, 8, 16, 32, 64, 128, 256]


def ook_f(r, mu, s0, s1):
    return 0.5 * (Qf((mu - r) / s1) + Qf(r / s0))


def hard_f(r, mu, s0, s1, M):
    return 1 - Qf((r - mu) / s1) * (1 - Qf(r / s0)) ** (M - 1)


def true_min(f, lo, hi):
    """independent of the grids used by the code: dense scan, then repeated zoom around the best point (the cost may have
    a very sharp knee when s0 << s1)"""
    a, b = lo, hi
    best_x, best_v = lo, float(f(lo))
    for _ in range(7):
        xs = np.linspace(a, b, 4001)
        v = f(xs)
        i = int(np.argmin(v))
        if v[i] <= best_v:
            best_x, best_v = float(xs[i]), float(v[i])
        a, b = xs[max(0, i - 2)], xs[min(len(xs) - 1, i + 2)]
        if b - a <= 1e-15 * max(1.0, abs(hi)):
            break
    return best_x, best_v


def grid_bracket(f, lo, hi, npts, value, tag, what):
    rstar, fmin = true_min(f, lo, hi)
    d = (hi - lo) / (npts - 1)
    ub = max(f(max(lo, rstar - d)), f(min(hi, rstar + d)))
    check(value >= fmin * (1 - 1e-9) - 1e-14, tag + "-below-true-minimum", f"{what}: value {value:.6e} < true minimum {fmin:.6e}")
    check(value <= ub * (1 + 1e-9) + 1e-14, tag + "-above-grid-error", f"{what}: value {value:.6e} > {ub:.6e} (true min {fmin:.6e})")


def soft_ser(mu, s0, s1, M):
    """1 - E_x[(1-Q((mu+s1 x)/s0))^(M-1)], x ~ N(0,1); the integrand is a (possibly very sharp) step at x0 = -mu/s1 of
    width s0/s1, so the quadrature is told where it is."""
    from scipy import integrate
    x0, wdt = -mu / s1, s0 / s1
    f = lambda x: (1 - Qf((mu + s1 * x) / s0)) ** (M - 1) * np.exp(-x ** 2 / 2) / np.sqrt(2 * np.pi)  # noqa: E731
    pts = sorted({min(12.0, max(-12.0, x0 + k * wdt)) for k in (-30, -8, -3, -1, 0, 1, 3, 8, 30)} | {-6.0, 0.0, 6.0})
    edges = [-12.0] + [p_ for p_ in pts if -12 < p_ < 12] + [12.0]
    tot = 0.0
    for a_, b_ in zip(edges, edges[1:]):
        if b_ > a_:
            tot += integrate.quad(f, a_, b_, epsabs=1e-13, epsrel=1e-11, limit=200)[0]
    return 1 - tot


# --------------------------------------------------------------------------------------------------

@st.composite
def s_ber(draw):
    s0 = 10 ** draw(st.floats(-3, 1))
    ratio = draw(st.one_of(st.just(1.0), st.floats(-1, 1).map(lambda e: 10 ** e)))
    s1 = s0 * ratio
    s = max(s0, s1)
    mus = draw(st.lists(st.floats(0.05, 20), min_size=1, max_size=5))
    return {"s0": s0, "s1": s1, "mus": [m * s for m in mus], "M": draw(st.sampled_from(ORD)), "badM": draw(st.sampled_from([3, 5, 6, 7, 12, 100]))}


def e_ber(c):
    s0, s1, M = c["s0"], c["s1"], c["M"]
    mus = np.sort(np.array(c["mus"]))
    # ---- OOK
    v = np.atleast_1d(lib(OOK.theory_BER, mus, s0, s1))
    check(v.shape == mus.shape, "ook-ber-vectorisation", f"{v.shape}")
    for mu, val in zip(mus, v):
        sc = float(lib(OOK.theory_BER, float(mu), s0, s1))
        check(abs(sc - val) <= 1e-15 + 1e-12 * val, "ook-ber-vector!=scalar", f"{sc} vs {val}")
        grid_bracket(lambda r: ook_f(r, mu, s0, s1), 0.0, mu, 1000, float(val), "ook-ber", f"mu={mu} s0={s0} s1={s1}")
        if s0 == s1:
            exact = float(Qf(mu / (2 * s0)))
            check(val >= exact * (1 - 1e-9), "ook-ber-below-Q(mu/2s)", f"{val} < {exact}")
            # the grid holds the midpoint only approximately: one grid step away at most
            ub = ook_f(mu / 2 + mu / 999, mu, s0, s1)
            check(val <= ub * (1 + 1e-9), "ook-ber!=Q(mu/2s)", f"mu={mu} s={s0}: {val} vs Q={exact}")
        check(val <= 0.5 + 1e-12, "ook-ber>1/2", f"{val}")
    check(bool(np.all(np.diff(v) <= 1e-15)), "ook-ber-increasing-in-mu", f"{mus} -> {v}")
    # ---- PPM
    soft = np.atleast_1d(lib(PPM.theory_BER, mus, s0, s1, M, "soft"))
    hard = np.atleast_1d(lib(PPM.theory_BER, mus, s0, s1, M, "hard"))
    check(soft.shape == mus.shape and hard.shape == mus.shape, "ppm-ber-vectorisation", "")
    bound = M / (2 * (M - 1))
    for mu, sv, hv in zip(mus, soft, hard):
        ref = soft_ser(mu, s0, s1, M) * bound
        dat = {"sigma_ratio": float(s0 / s1), "abs_err": float(abs(sv - ref))}
        check(abs(sv - ref) <= 1e-6, "ppm-soft-ber!=integral", f"mu={mu} s0={s0} s1={s1} M={M}: {sv} vs {ref}", data=dat)
        if M == 2:
            qv = float(Qf(mu / np.hypot(s0, s1)))
            check(abs(sv - qv) <= 1e-7, "ppm-soft-M2!=Q(mu/sqrt(s0^2+s1^2))", f"mu={mu} s0={s0} s1={s1}: {sv} vs {qv}", data={"sigma_ratio": float(s0 / s1), "abs_err": abs(sv - qv)})
        grid_bracket(lambda r: hard_f(r, mu, s0, s1, M) * bound, 0.0, mu, 1000, float(hv), "ppm-hard-ber", f"mu={mu} s0={s0} s1={s1} M={M}")
        check(sv <= hv + 1e-7, "ppm-soft>hard", f"mu={mu} M={M}: soft {sv} hard {hv}")
        check(sv <= bound + 1e-7 and hv <= bound + 1e-9, "ppm-ber>M/2(M-1)", f"{sv} {hv}")
        check(abs(float(lib(PPM.theory_BER, float(mu), s0, s1, M, "soft")) - sv) <= 1e-9, "ppm-ber-vector!=scalar", "soft")
        check(abs(float(lib(PPM.theory_BER, float(mu), s0, s1, M, "hard")) - hv) <= 1e-12, "ppm-ber-vector!=scalar", "hard")
    check(bool(np.all(np.diff(hard) <= 1e-12)), "ppm-hard-ber-increasing-in-mu", f"{hard}")
    check(bool(np.all(np.diff(soft) <= 1e-7)), "ppm-soft-ber-increasing-in-mu", f"{soft}")
    check(float(lib(PPM.theory_BER, float(mus[0]), s0, s1, M)) == soft[0] or abs(float(lib(PPM.theory_BER, float(mus[0]), s0, s1, M)) - soft[0]) <= 1e-9, "ppm-ber-default-decision", "")
    raises(ValueError, PPM.theory_BER, 1.0, s0, s1, c["badM"], tag="ppm-ber-bad-M-accepted")
    raises(ValueError, PPM.theory_BER, 1.0, s0, s1, M, "medium", tag="ppm-ber-bad-decision-accepted")
    return {"nontrivial": s0 != s1 or len(mus) > 1, "classes": [f"M{M}", "equal-sigma" if s0 == s1 else "unequal-sigma"]}


# --------------------------------------------------------------------------------------------------

@st.composite
def s_est(draw):
    d = 10 ** draw(st.floats(-3, 1.5))
    s0 = d / draw(st.floats(1.2, 20))
    s1 = s0 * draw(st.one_of(st.just(1.0), st.floats(0.2, 5)))
    M = draw(st.sampled_from(ORD))
    rel = draw(st.sampled_from([None, None, None, "s0=(M-1)*s1", "s1=(M-1)*s0", "s0=s1*2"]))
    if rel and M > 2:
        # exact numeric relations between the two sigmas and the order (powers of two, so that squares and square roots are exact)
        base = 2.0 ** int(np.floor(np.log2(d / (8 * (M - 1)))))
        s0, s1 = {"s0=(M-1)*s1": ((M - 1) * base, base), "s1=(M-1)*s0": (base, (M - 1) * base), "s0=s1*2": (2 * base, base)}[rel]
    return {"mu0": draw(st.one_of(st.just(0.0), st.floats(-10, 10).map(lambda v: v * d))), "d": d, "s0": s0, "s1": s1, "M": M,
            "beta": draw(st.floats(-5, 5)) * d, "rel": rel if M > 2 else None}


def e_est(c):
    mu0, d, s0, s1, M, beta = c["mu0"], c["d"], c["s0"], c["s1"], c["M"], c["beta"]
    mu1 = mu0 + d
    ey = eye(mu0=mu0, mu1=mu1, s0=s0, s1=s1)
    ey0 = eye(mu0=0.0, mu1=d, s0=s0, s1=s1)
    eyb = eye(mu0=mu0 + beta, mu1=mu1 + beta, s0=s0, s1=s1)
    step = d / 999
    # OOK
    ref = float(lib(OOK.theory_BER, d, s0, s1))
    for e_, nm in ((ey, "offset"), (ey0, "zero-offset"), (eyb, "shifted")):
        b = float(lib(OOK.BER_analizer, "estimator", eye_obj=e_))
        check(abs(b - ref) <= 1e-6 * ref + 1e-300, "ook-estimator!=theory_BER(mu1-mu0)", f"{nm}: {b} vs {ref}")
    th = float(lib(OOK.THRESHOLD_EST, ey))
    check(mu0 - 1e-12 * abs(mu0) <= th <= mu1 + 1e-12 * abs(mu1), "ook-threshold-outside-[mu0,mu1]", f"{th}")
    rstar, _ = true_min(lambda r: ook_f(r, d, s0, s1), 0.0, d)
    check(abs((th - mu0) - rstar) <= 1.01 * step + 1e-9 * (abs(mu0) + d), "ook-threshold-not-minimiser", f"{th - mu0} vs {rstar} (step {step})")
    if s0 == s1:
        check(abs(th - (mu0 + mu1) / 2) <= 1.01 * step + 1e-9 * (abs(mu0) + d), "ook-threshold-not-midpoint", f"{th} vs {(mu0 + mu1) / 2}")
    thb = float(lib(OOK.THRESHOLD_EST, eyb))
    check(abs((thb - beta) - th) <= 1.01 * step + 1e-9 * (abs(mu0) + abs(beta) + d), "ook-threshold-not-shift-equivariant", "")
    # PPM
    for dec in ("hard", "soft"):
        ref = float(lib(PPM.theory_BER, d, s0, s1, M, dec))
        for e_, nm in ((ey, "offset"), (eyb, "shifted")):
            b = float(lib(PPM.BER_analizer, "estimator", eye_obj=e_, M=M, decision=dec))
            check(abs(b - ref) <= 1e-6 * ref + 1e-8, "ppm-estimator!=theory_BER(mu1-mu0)", f"{dec} {nm}: {b} vs {ref}")
    # an eye that also carries a measured decision threshold (as the eyes returned by GET_EYE do): the estimator still depends on mu1-mu0, s0, s1, M only
    ey_thr = eye(mu0=mu0, mu1=mu1, s0=s0, s1=s1, threshold=mu0 + 0.31 * d)
    for dec in ("hard", "soft"):
        ref = float(lib(PPM.theory_BER, d, s0, s1, M, dec))
        b = float(lib(PPM.BER_analizer, "estimator", eye_obj=ey_thr, M=M, decision=dec))
        check(abs(b - ref) <= 1e-6 * ref + 1e-8, "ppm-estimator!=theory_BER(mu1-mu0)", f"{dec}, eye with a stored threshold attribute: {b} vs {ref}")
    check(abs(float(lib(OOK.BER_analizer, "estimator", eye_obj=ey_thr)) - float(lib(OOK.theory_BER, d, s0, s1))) <= 1e-6 * float(lib(OOK.theory_BER, d, s0, s1)) + 1e-300,
          "ook-estimator!=theory_BER(mu1-mu0)", "eye with a stored threshold attribute")
    thp = float(lib(PPM.THRESHOLD_EST, ey, M))
    check(mu0 - 1e-12 * abs(mu0) <= thp <= mu1 + 1e-12 * abs(mu1), "ppm-threshold-outside-[mu0,mu1]", f"{thp}")
    rs_, _ = true_min(lambda r: hard_f(r, d, s0, s1, M), 0.0, d)
    cost = lambda r: hard_f(r, d, s0, s1, M)  # noqa: E731
    check(cost(thp - mu0) <= max(cost(max(0, rs_ - step)), cost(min(d, rs_ + step))) * (1 + 1e-9) + 1e-300, "ppm-threshold-not-minimiser", f"{thp - mu0} vs {rs_}")
    raises(ValueError, PPM.THRESHOLD_EST, ey, 6, tag="ppm-threshold-bad-M-accepted")
    # the estimators read the eye's CURRENT statistics: the same eye object updated in place (a receiver re-measuring its eye)
    ey.mu0, ey.mu1, ey.s0, ey.s1 = 3 * mu0 + beta + d, 3 * mu1 + beta + d, 3 * s1, 3 * s0
    fresh = eye(mu0=ey.mu0, mu1=ey.mu1, s0=ey.s0, s1=ey.s1)
    for nm, fn, a in (("ook.THRESHOLD_EST", OOK.THRESHOLD_EST, ()), ("ppm.THRESHOLD_EST", PPM.THRESHOLD_EST, (M,))):
        t_upd, t_new = float(lib(fn, ey, *a)), float(lib(fn, fresh, *a))
        check(t_upd == t_new, "estimator-uses-stale-eye", f"{nm}: {t_upd} for the updated eye object, {t_new} for a new object with the same statistics")
        check(ey.mu0 - 1e-12 * abs(ey.mu0) <= t_upd <= ey.mu1 + 1e-12 * abs(ey.mu1), "threshold-outside-[mu0,mu1]", f"{nm}: {t_upd} for [{ey.mu0}, {ey.mu1}] (eye updated in place)")
    for dec in ("hard", "soft"):
        b_upd = float(lib(PPM.BER_analizer, "estimator", eye_obj=ey, M=M, decision=dec))
        b_new = float(lib(PPM.BER_analizer, "estimator", eye_obj=fresh, M=M, decision=dec))
        check(b_upd == b_new, "estimator-uses-stale-eye", f"ppm.BER_analizer({dec}): {b_upd} vs {b_new}")
    check(float(lib(OOK.BER_analizer, "estimator", eye_obj=ey)) == float(lib(OOK.BER_analizer, "estimator", eye_obj=fresh)), "estimator-uses-stale-eye", "ook.BER_analizer")
    # ... and the order M handed over NOW: the same eye object analysed for another PPM order (one measured eye, several candidate formats)
    for M2 in [m_ for m_ in (2, 4, 16, 64, 256) if m_ != M][:: 2 if M % 3 else 1][:3]:
        t_same, t_new = float(lib(PPM.THRESHOLD_EST, ey, M2)), float(lib(PPM.THRESHOLD_EST, eye(mu0=ey.mu0, mu1=ey.mu1, s0=ey.s0, s1=ey.s1), M2))
        check(t_same == t_new, "estimator-uses-stale-order", f"ppm.THRESHOLD_EST(eye, {M2}) after M={M} on the same eye object: {t_same} vs {t_new} for a new object")
        b_same = float(lib(PPM.BER_analizer, "estimator", eye_obj=ey, M=M2, decision="hard"))
        b_new = float(lib(PPM.BER_analizer, "estimator", eye_obj=eye(mu0=ey.mu0, mu1=ey.mu1, s0=ey.s0, s1=ey.s1), M=M2, decision="hard"))
        check(b_same == b_new, "estimator-uses-stale-order", f"ppm.BER_analizer(hard, M={M2}) after M={M} on the same eye object: {b_same} vs {b_new}")
    # optimum_threshold: MAP crossing of the two weighted Gaussians
    S0, S1 = s0 ** 2, s1 ** 2
    crossing = []
    for mod, MM in (("ook", None), ("ppm", M)):
        Me = 2 if mod == "ook" else MM
        # a real crossing of the two weighted Gaussians must exist (discriminant of the quadratic > 0)
        if d ** 2 + 2 * (S1 - S0) * np.log(s1 / s0 * (Me - 1)) <= 0.02 * d ** 2:
            crossing.append(f"{mod}:no-real-crossing")
            continue
        r = float(lib(U.optimum_threshold, mu0, mu1, S0, S1, mod, MM))
        check(np.isfinite(r), "optimum-threshold-not-finite", f"{mod} S0={S0} S1={S1}: {r}")
        lhs = np.log(Me - 1) + stats.norm.logpdf(r, mu0, s0)
        rhs = stats.norm.logpdf(r, mu1, s1)
        check(abs(lhs - rhs) <= 1e-6 * max(1.0, abs(lhs)), "optimum-threshold-does-not-solve-crossing", f"{mod} M={Me}: log lhs {lhs} rhs {rhs} at r={r}")
        if s0 == s1:
            want = (mu0 + mu1) / 2 + S0 * np.log(Me - 1) / d
            check(abs(r - want) <= 1e-9 * (abs(mu0) + d), "optimum-threshold-equal-variances", f"{r} vs {want}")
        rb = float(lib(U.optimum_threshold, mu0 + beta, mu1 + beta, S0, S1, mod, MM))
        check(abs((rb - beta) - r) <= 1e-7 * (abs(mu0) + abs(beta) + d), "optimum-threshold-not-shift-equivariant", f"{rb - beta} vs {r}")
    return {"nontrivial": s0 != s1, "classes": [f"M{M}", "equal-sigma" if s0 == s1 else "unequal-sigma", "offset" if mu0 else "zero-offset", "rel:" + str(c.get("rel"))] + crossing}


# --------------------------------------------------------------------------------------------------
# receiver model

def model(P_avg_dbm, M, ER_db, amplify, wavelength, G, NF, BW_opt, r, BW_el, R_L, T, NF_el):
    er = np.inf if np.isinf(ER_db) else 10 ** (ER_db / 10)
    p_avg = 10 ** (P_avg_dbm / 10) * 1e-3
    p_on = p_avg * M / (1 + (M - 1) / er)
    p_off = p_on / er
    if amplify:
        g = 10 ** (G / 10)
        pase = 10 ** (NF / 10) * HP * (CL / wavelength) * (g - 1) * BW_opt
        l = BW_el / BW_opt
    else:
        g, pase, l = 1.0, 0.0, 1.0
    mu_ase = r * pase * R_L
    mu = r * g * np.array([p_off, p_on]) * R_L + mu_ase
    th = 4 * KB * T * BW_el * R_L * 10 ** (NF_el / 10)
    sh = 2 * QE * mu * BW_el * R_L
    sa = 2 * mu_ase * (mu - mu_ase) * l
    aa = mu_ase ** 2 * (1 - l / 2) * l
    return mu, mu_ase, pase, th + sh + sa + aa, (th, sh, sa, aa)


@st.composite
def s_rx(draw):
    amplify = draw(st.booleans())
    BW_el = 10 ** draw(st.floats(8, 10.5))
    return {"mod": draw(st.sampled_from(["ook", "ppm"])), "M": draw(st.sampled_from([2, 4, 8, 16, 64, 256])), "dec": draw(st.sampled_from(["hard", "soft"])),
            "ER": draw(st.one_of(st.just(float("inf")), st.floats(3, 60))), "amplify": amplify, "G": draw(st.floats(0, 40)), "NF": draw(st.floats(3, 10)),
            "BW_el": BW_el, "bwr": draw(st.floats(1.01, 100)), "r": draw(st.floats(0.05, 1)), "R_L": 10 ** draw(st.floats(1, 4)),
            "T": draw(st.one_of(st.just(0.0), st.floats(1, 400))), "NF_el": draw(st.one_of(st.just(0.0), st.floats(0, 10))),
            "wl": draw(st.floats(1260e-9, 1650e-9)), "Q": draw(st.floats(0.5, 7)), "thr": draw(st.one_of(st.none(), st.floats(0.05, 0.95))),
            "raw_P": draw(st.lists(st.floats(-50, 0), min_size=2, max_size=4)), "omit_neutral": draw(st.booleans()), "ook_M": draw(st.booleans())}


def e_rx(c):
    mod, M, dec = c["mod"], (2 if c["mod"] == "ook" else c["M"]), c["dec"]
    amplify, ER = c["amplify"], c["ER"]
    if c["T"] < 1 and np.isinf(ER):
        ER = 20.0          # otherwise the OFF level is noise-free (sigma_0 = 0), outside "s0, s1 > 0"
    # (an order passed along with modulation='ook' - one kwargs dict shared by OOK and PPM sweeps - is ignored by every function alike)
    kw = dict(M=((c["M"] if c.get("ook_M") else None) if mod == "ook" else M), ER=ER, amplify=amplify, G=c["G"], NF=c["NF"], BW_opt=c["BW_el"] * c["bwr"], r=c["r"], R_L=c["R_L"])
    args = dict(wavelength=c["wl"], BW_el=c["BW_el"], T=c["T"], NF_el=c["NF_el"])
    if not amplify and c["omit_neutral"]:
        kw.update(G=None, NF=None, BW_opt=None)     # documented: "only used if amplify=True"

    def mdl(P):
        return model(P, M, ER, amplify, c["wl"], c["G"], c["NF"], c["BW_el"] * c["bwr"], c["r"], c["BW_el"], c["R_L"], c["T"], c["NF_el"])

    # solve P_avg for the drawn Q-factor (levels and sigmas from the harness model)
    def qfac(P):
        mu, _, _, S, _ = mdl(P)
        return (mu[1] - mu[0]) / (np.sqrt(S[0]) + np.sqrt(S[1]))
    lo, hi = -90.0, 30.0
    if qfac(lo) >= c["Q"] or qfac(hi) <= c["Q"]:
        P0 = c["raw_P"][0]
    else:
        P0 = float(optimize.brentq(lambda P: qfac(P) - c["Q"], lo, hi, xtol=1e-10))
    mu, mu_ase, pase, S, parts = mdl(P0)
    # ---- levels, ASE power, variances
    got_mu, got_mu_ase = lib(U.average_voltages, P0, mod, wavelength=c["wl"], **kw)
    check(np.allclose(got_mu, mu, rtol=1e-10, atol=0) and abs(got_mu_ase - mu_ase) <= 1e-10 * max(mu_ase, 1e-300), "average_voltages!=model",
          f"{got_mu} vs {mu}; mu_ASE {got_mu_ase} vs {mu_ase}")
    if amplify:
        got_pase = lib(U.p_ase, True, c["wl"], c["G"], c["NF"], c["BW_el"] * c["bwr"])
        check(abs(got_pase - pase) <= 1e-10 * max(pase, 1e-300), "p_ase!=NF*h*f0*(G-1)*BW_opt", f"{got_pase} vs {pase}")
        raises(ValueError, U.p_ase, True, c["wl"], None, c["NF"], 1e9, tag="p_ase-missing-G-accepted")
    check(lib(U.p_ase, False) == 0, "p_ase(amplify=False)!=0", "")
    got_S = np.asarray(lib(U.noise_variances, P0, mod, **kw, **args))
    check(np.allclose(got_S, S, rtol=1e-9, atol=0), "noise_variances!=model",
          f"got {got_S} want {S} (thermal {parts[0]:.3e} shot {parts[1]} sig-ase {parts[2]} ase-ase {parts[3]:.3e}; NF_el={c['NF_el']:.2f} R_L={c['R_L']:.1f})")
    # ---- BER == error integral on those levels and variances
    s = np.sqrt(S)
    tb = dict(M=kw["M"], ER=ER, amplify=amplify, f0=CL / c["wl"], G=kw["G"], NF=kw["NF"], BW_opt=kw["BW_opt"], r=c["r"], BW_el=c["BW_el"], R_L=c["R_L"], T=c["T"], NF_el=c["NF_el"])
    d = mu[1] - mu[0]
    bound = M / (2 * (M - 1))
    if mod == "ook":
        val = float(lib(U.theory_BER, P0, "ook", **tb))
        f = lambda x: 0.5 * (Qf((mu[1] - x) / s[1]) + Qf((x - mu[0]) / s[0]))  # noqa: E731
        grid_bracket(f, mu[0], mu[1], 5000, val, "theory_BER(ook)", f"P={P0:.2f} dBm")
        if c["thr"] is not None:
            v2 = float(lib(U.theory_BER, P0, "ook", threshold=c["thr"], **tb))
            want = float(f(c["thr"] * mu[1] + (1 - c["thr"]) * mu[0]))
            check(abs(v2 - want) <= 1e-7 * want + 1e-300, "theory_BER(ook,threshold)!=model", f"{v2} vs {want}")
    else:
        val = float(lib(U.theory_BER, P0, "ppm", decision=dec, **tb))
        if dec == "hard":
            f = lambda x: bound * (1 - Qf((x - mu[1]) / s[1]) * (1 - Qf((x - mu[0]) / s[0])) ** (M - 1))  # noqa: E731
            grid_bracket(f, mu[0], mu[1], 5000, val, "theory_BER(ppm,hard)", f"P={P0:.2f} dBm M={M}")
            if c["thr"] is not None:
                v2 = float(lib(U.theory_BER, P0, "ppm", decision="hard", threshold=c["thr"], **tb))
                want = float(f(c["thr"] * mu[1] + (1 - c["thr"]) * mu[0]))
                check(abs(v2 - want) <= 1e-7 * want + 1e-300, "theory_BER(ppm,threshold)!=model", f"{v2} vs {want}")
        else:
            want = soft_ser(d, s[0], s[1], M) * bound
            check(abs(val - want) <= 1e-6 + 1e-5 * want, "theory_BER(ppm,soft)!=model", f"P={P0:.2f} dBm M={M}: {val} vs {want} (sigma_OFF/sigma_ON = {s[0] / s[1]:.2e})",
                  data={"sigma_ratio": float(s[0] / s[1]), "abs_err": float(abs(val - want))})
    # ---- monotone in received power, vectorises
    Ps = np.unique(np.round(np.array([P0 - 3, P0 - 1, P0, P0 + 1, P0 + 3] + list(c["raw_P"])), 6))
    targs = dict(tb)
    if mod == "ppm":
        targs["decision"] = dec
    vec = np.atleast_1d(lib(U.theory_BER, Ps, mod, **targs))
    check(vec.shape == Ps.shape, "theory_BER-vectorisation", f"{vec.shape}")
    for P, v in zip(Ps[:3], vec[:3]):
        check(abs(float(lib(U.theory_BER, float(P), mod, **targs)) - v) <= 1e-9 * v + 1e-12, "theory_BER-vector!=scalar", "")
    tolm = 1e-7 if (mod == "ppm" and dec == "soft") else 0.0
    dv = np.diff(vec)
    check(bool(np.all(dv <= tolm + 1e-12 * vec[:-1])), "theory_BER-increasing-in-power", f"P={Ps} BER={vec}")
    mid = (vec[1:] > 1e-12) & (vec[:-1] < 0.4 * bound / 0.5)
    check(bool(np.all(dv[mid] < tolm)), "theory_BER-not-decreasing-in-power", f"P={Ps} BER={vec}")
    frac = [parts[1][1] / S[1], parts[2][1] / S[1], parts[3] / S[1]]
    nt = max(frac) >= 0.1
    return {"nontrivial": bool(nt), "classes": [mod, "amp" if amplify else "unamp", f"M{M}", dec if mod == "ppm" else "-", "thermal-dominated" if not nt else "shot/beat>=10%",
                                                 "ERinf" if np.isinf(ER) else "ERfinite", "T0" if c["T"] == 0 else "T>0", "omit" if (not amplify and c["omit_neutral"]) else "explicit",
                                                 "ook-with-M" if mod == "ook" and c.get("ook_M") and c["M"] != 2 else "-"]}


# --------------------------------------------------------------------------------------------------
# agreement with the PD / EDFA device models (statistical)

@st.composite
def s_dev(draw):
    return {"gv": draw(s_gv(sps_max=16, with_extra=True)), "seed": draw(st.integers(0, 2 ** 31 - 1)), "p_dbm": draw(st.floats(-30, 5)), "r": draw(st.floats(0.1, 1)),
            "R_L": 10 ** draw(st.floats(1, 3)), "T": draw(st.one_of(st.just(0.0), st.floats(50, 400))), "NF_el": draw(st.one_of(st.just(0.0), st.floats(0, 10))),
            "G": draw(st.floats(5, 40)), "NF": draw(st.floats(3, 10))}


def e_dev(c):
    reset()
    sps, Rs, fs = apply_gv(c["gv"])
    N = 2 ** 17
    P = 10 ** (c["p_dbm"] / 10) * 1e-3
    wl = c["gv"].get("wavelength") or 1550e-9
    # PD: CW of power P == the ON level of an OOK signal with ER=inf and P_avg = P/2
    x = optical_signal(np.sqrt(P) * np.ones(N, dtype=complex))
    BW = 0.45 * fs
    np.random.seed(c["seed"])
    y = lib(D.PD, x, BW, c["r"], c["T"], c["R_L"], "thermal-shot", 0.0, c["NF_el"])
    sos = sg.bessel(4, BW, "low", fs=fs, output="sos", norm="mag")
    _, H = sg.sosfreqz(sos, worN=1 << 15, fs=fs, whole=True)
    Pw = np.abs(H) ** 4
    neb = float(np.mean(Pw))
    rho = np.fft.ifft(Pw).real
    neff = 0.75 * N / float(np.sum((rho / rho[0]) ** 2))
    meas = float(np.var(y.noise[N // 8: 7 * N // 8])) / neb
    P_avg_dbm = 10 * np.log10(P / 2 * 1e3)
    S = np.asarray(lib(U.noise_variances, P_avg_dbm, "ook", ER=np.inf, amplify=False, G=0.0, NF=0.0, BW_opt=fs, r=c["r"], BW_el=fs / 2, R_L=c["R_L"], T=c["T"], NF_el=c["NF_el"]))
    band = 6 * np.sqrt(2 / neff)
    check(abs(meas / S[1] - 1) <= band, "PD-noise!=noise_variances", f"measured/formula = {meas / S[1]:.4f} (band {band:.4f}); T={c['T']:.0f} NF_el={c['NF_el']:.1f} R_L={c['R_L']:.1f} P={P:.2e}")
    muv, _ = lib(U.average_voltages, P_avg_dbm, "ook", ER=np.inf, amplify=False, G=0.0, NF=0.0, BW_opt=fs, r=c["r"], R_L=c["R_L"])
    check(abs(float(np.mean(y.signal)) - muv[1]) <= 1e-9 * muv[1], "PD-level!=average_voltages", f"{np.mean(y.signal)} vs {muv[1]}")
    # EDFA: total ASE power == p_ase(BW_opt = fs)
    np.random.seed(c["seed"] ^ 99)
    a = lib(D.EDFA, optical_signal(np.zeros(N, dtype=complex)), c["G"], c["NF"])
    meas_ase = float(np.sum(np.mean(np.abs(a.noise) ** 2, axis=-1)))
    want = lib(U.p_ase, True, wl, c["G"], c["NF"], fs)
    check(abs(meas_ase / want - 1) <= 6 / np.sqrt(2 * N), "EDFA-ase!=p_ase", f"ratio {meas_ase / want:.4f}")
    return {"nontrivial": True, "classes": ["T0" if c["T"] == 0 else "T>0"]}


SOFT_TAGS = {"theory_BER(ppm,soft)!=model", "ppm-soft-ber!=integral", "ppm-soft-M2!=Q(mu/sqrt(s0^2+s1^2))"}


def classify(part, case, v):
    """Known finding F13e: the soft-decision integral is evaluated by an unguided adaptive quadrature over (-inf, inf). Its integrand
    contains a step of width sigma_OFF/sigma_ON (in units of the ON-level sigma); when that step is narrow (ratio < 0.5) the quadrature
    can fail to resolve it - either because it is extremely sharp (ratio < 0.01, error up to ~1e-3) or because it sits far in the
    Gaussian tail (error up to the tail mass, a few 1e-6). Anything outside that regime, or larger than 2e-3, is still reported."""
    if part in ("receiver", "ber") and v.tag in SOFT_TAGS:
        d = v.data
        if d and d.get("sigma_ratio", 1) < 0.5 and d.get("abs_err", 1) < 2e-3:
            return "F13e"
    return None


def finalize(tier, classes, summary=None):
    """F13e is a rare numerical glitch (about 3 soft-decision evaluations in 10^4; up to ~1% in the quick tier's small sample). If it suddenly
    explains more than 5% of the soft-decision cases, the formula itself is wrong and that is reported instead of being absorbed."""
    viol = []
    if summary:
        hits = summary["kf_hits"].get("F13e", 0)
        n = classes.get("receiver.soft", 0) + classes.get("ber.nontrivial", 0) + classes.get("ber.equal-sigma", 0)
        if n >= 40 and hits > max(6, 0.05 * n):
            viol.append({"part": "receiver", "case": {"known_finding_hits": hits, "soft_cases": n}, "tag": "known-finding-rate-exploded",
                         "msg": f"{hits} of about {n} soft-decision comparisons failed within the F13e envelope (recorded rate: ~3e-4 .. 1e-2)"})
    return viol, []


PARTS = [
    Part("ber", e_ber, s_ber(), quick=250, thorough=3000, shards=16, quick_shards=2, rule="ook/ppm theory_BER vs independent evaluation"),
    Part("estimators", e_est, s_est(), quick=250, thorough=3000, shards=16, quick_shards=2, rule="estimator modes, THRESHOLD_EST, optimum_threshold"),
    Part("receiver", e_rx, s_rx(), quick=500, thorough=6000, shards=16, quick_shards=4, rule="receiver model: levels, p_ase, variances, BER integral, monotonicity"),
    Part("devices", e_dev, s_dev(), quick=12, thorough=90, shards=8, quick_shards=2, shrink=False, rule="PD / EDFA measured noise powers vs the formulas"),
]
