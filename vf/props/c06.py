"""C06 - MZM obeys its passive transfer function; PM / laser phase terms are pure rotations."""
import numpy as np
from hypothesis import strategies as st

from ..core import check, lib, raises, Guard
from ..lib import reset, shadow_gv, gv, D, U, electrical_signal, optical_signal
from ..runner import Part
from ..sigs import s_signal, s_gv, apply_gv, build, contract

RULE = ("complex/real optical fields (1/2 pol, noise none/random/zero-sum/all-zero) x drive waveforms in every accepted container x bias/Vpi/loss/ER/pol; "
        "oracle: closed-form transfer applied to the input arrays, passivity, extinction ratio, 2Vpi periodicity, PM rotation/additivity, LASER |E|^2=P and "
        "spectral peak; non-trivial: noise present and (2-pol or array drive), or ER<10 dB, or zero-sum noise")
ASSUMPTIONS = ["closed-form comparison tolerance 1e-12 relative", "PM drives: float/int scalar, ndarray, electrical_signal (the documented types); MZM additionally list"]


@st.composite
def s_field(draw, nmax=512):
    n = draw(st.one_of(st.integers(1, 64), st.integers(1, nmax), st.sampled_from([1, 2, 3, 255, 256, 512])))
    x = draw(s_signal(n=n, cls="O", dts=("c", "f", "c"), fams=["gauss", "unif", "smallint", "const"]))
    x["noise_kind"] = draw(st.sampled_from(["none", "random", "random", "zero-sum", "all-zero", "tiny"]))
    x["fscale"] = draw(st.sampled_from([1.0, 1.0, 1.0, 1e-6, 1e-10]))
    x["nseed"] = draw(st.integers(0, 2 ** 31 - 1))
    return x


def build_field(spec):
    sp = dict(spec)
    sp["noise"] = None
    obj, m = build(sp)
    n, rows = m.N, (2 if m.npol == 2 else None)
    rs = np.random.RandomState(spec["nseed"])
    shape = (n,) if not rows else (2, n)
    k = spec["noise_kind"]
    if k == "none":
        nz = None
    elif k == "tiny":          # a genuine noise component far below any "is it zero?" tolerance
        nz = 1e-10 * (rs.standard_normal(shape) + 1j * rs.standard_normal(shape))
    elif k == "random":
        nz = 0.3 * (rs.standard_normal(shape) + 1j * rs.standard_normal(shape))
    elif k == "all-zero":
        nz = np.zeros(shape, dtype=complex)
    else:  # small integers summing to zero over the whole array
        nz = rs.randint(-3, 4, size=shape).astype(complex)
        flat = nz.reshape(-1)
        flat[-1] -= flat.sum()
        if not np.any(flat):
            flat[0] = 1
            if flat.size > 1:
                flat[-1] = -1
    s = m.s.astype(complex) if nz is not None else m.s
    fsc = spec.get("fscale", 1.0)
    if fsc != 1.0:
        s = s.astype(complex) * fsc
        nz = None if nz is None else nz * fsc
    obj = optical_signal(s.copy(), None if nz is None else nz.copy(), n_pol=m.npol)
    m.s, m.n = s, nz
    return obj, m


@st.composite
def s_drive(draw, kinds):
    return {"kind": draw(st.sampled_from(kinds)), "seed": draw(st.integers(0, 2 ** 31 - 1)), "amp": draw(st.floats(0, 12)),
            "rel": draw(st.sampled_from(["match", "match", "match", "match", "one", "mismatch"])), "unoise": draw(st.booleans())}


def make_drive(d, n):
    """-> (python drive argument, drive values as ndarray (n,) or scalar ndarray)"""
    rs = np.random.RandomState(d["seed"])
    k = d["kind"]
    if k == "pyfloat":
        v = float(rs.uniform(-d["amp"], d["amp"]))
        return v, np.asarray(v)
    if k == "pyint":
        v = int(rs.randint(-6, 7))
        return v, np.asarray(float(v))
    L = n if d["rel"] == "match" else (1 if d["rel"] == "one" else n + 1 + int(rs.randint(0, 3)))
    u = rs.uniform(-d["amp"], d["amp"], L)
    if k == "full":
        u = np.full(L, u[0])
    elif k == "ripple":       # an almost constant drive: pedestal plus a ripple of 1e-9..1e-4 V
        u = np.full(L, u[0]) + 10 ** rs.uniform(-9, -4) * np.sin(2 * np.pi * rs.uniform(0.01, 0.4) * np.arange(L) + rs.uniform(0, 6))
        k = "ndarray"
    if k in ("int8", "uint8", "int16"):      # raw DAC codes / integer volts in a narrow integer array, the upper half of the range included
        dt = np.dtype(k)
        hi = int(np.iinfo(dt).max)
        u = rs.randint(hi // 2 - 3, hi + 1, L).astype(dt) if rs.randint(0, 2) else rs.randint(int(np.iinfo(dt).min), hi + 1, L).astype(dt)
        return u.copy(), u.astype(float)
    if k == "list":
        return u.tolist(), u
    if k == "es":
        return electrical_signal(u.copy(), rs.standard_normal(L) if d["unoise"] else None), u
    return u.copy(), u


@st.composite
def s_mzm(draw):
    return {"x": draw(s_field()), "u": draw(s_drive(["pyfloat", "pyint", "ndarray", "full", "es", "list", "ripple", "ndarray", "es", "int8", "uint8", "int16"])),
            "bias": draw(st.floats(-20, 20)), "Vpi": draw(st.floats(0.5, 20)), "loss": draw(st.one_of(st.just(0.0), st.floats(0, 20))),
            "ER": draw(st.one_of(st.floats(0, 60), st.sampled_from([0.0, 60.0, 26.0, 3.0]))), "pol": draw(st.sampled_from(["x", "y"]))}


def e_mzm(c):
    reset()
    if c["x"]["nseed"] % 3 == 0:
        shadow_gv()          # user attributes named Vpi, bias, loss_dB, ER_dB, pol, BW ... sit in gv
    x, m = build_field(c["x"])
    N = m.N
    u_arg, u = make_drive(c["u"], N)
    bias, Vpi, loss_dB, ER, pol = c["bias"], c["Vpi"], c["loss"], c["ER"], c["pol"]
    g = Guard()
    g.add_signal("x", x)
    if isinstance(u_arg, electrical_signal):
        g.add_signal("u", u_arg)
    elif isinstance(u_arg, np.ndarray):
        g.add("u", u_arg)
    mism = u.ndim == 1 and u.size not in (N, 1)
    if mism:
        raises(ValueError, D.MZM, x, u_arg, bias, Vpi, loss_dB, ER, pol, tag="mzm-length-mismatch-accepted")
        g.verify()
        g.release()
        return {"nontrivial": False, "classes": ["mismatch"]}
    y = lib(D.MZM, x, u_arg, bias, Vpi, loss_dB, ER, pol)
    contract(y, "O", m.npol, N, "MZM output")
    theta = np.pi * (u + bias) / (2 * Vpi)
    L = 10 ** (-loss_dB / 10)
    h = np.sqrt(L) * (np.cos(theta) + 1j * 10 ** (-ER / 20) * np.sin(theta))
    want_s = m.s * h
    want_n = None if m.n is None else m.n * h
    if m.npol == 2:
        off = 1 if pol == "x" else 0
        want_s = want_s.copy()
        want_s[off] = 0
        if want_n is not None:
            want_n = want_n.copy()
            want_n[off] = 0
    scale = max(float(np.max(np.abs(m.s))), 1e-300)          # relative to the field, no absolute floor
    # (the argument reduction of cos/sin costs ~1e-16 per radian of |theta|: integer-volt drives reach 1e5 rad)
    scale = scale * (1 + 1e-3 * float(np.max(np.abs(theta))))
    check(np.allclose(y.signal, want_s, rtol=1e-12, atol=1e-12 * scale), "mzm-signal!=closed-form", f"max err {np.max(np.abs(y.signal - want_s)):.3e}")
    check((y.noise is None) == (m.n is None), "noise-presence", f"input noise {c['x']['noise_kind']}, output noise {'None' if y.noise is None else 'present'}")
    if want_n is not None:
        check(np.allclose(y.noise, want_n, rtol=1e-12, atol=1e-12 * max(float(np.max(np.abs(m.n))), 1e-300) * (1 + 1e-3 * float(np.max(np.abs(theta))))), "mzm-noise!=closed-form", f"noise kind {c['x']['noise_kind']}")
    if m.npol == 2:
        off = 1 if pol == "x" else 0
        check(not np.any(y.signal[off]) and (y.noise is None or not np.any(y.noise[off])), "unselected-polarisation-not-extinguished", pol)
    check(bool(np.all(np.abs(y.signal) <= np.sqrt(L) * np.abs(m.s) * (1 + 1e-12) + 1e-300)), "mzm-amplifies", "")
    # documented defaults (bias=0, Vpi=5, no loss, ER 26 dB, pol 'x', no bandwidth limit) when the optional parameters are left out
    yd = lib(D.MZM, x, u_arg)
    thd = np.pi * u / (2 * 5.0)
    wd = m.s * (np.cos(thd) + 1j * 10 ** (-26.0 / 20) * np.sin(thd))
    if m.npol == 2:
        wd = wd.copy()
        wd[1] = 0
    check(np.allclose(yd.signal, wd, rtol=1e-12, atol=1e-12 * scale * (1 + 1e-3 * float(np.max(np.abs(thd))))), "mzm-defaults!=documented", f"max err {np.max(np.abs(yd.signal - wd)):.3e} (custom gv attributes present: {c['x']['nseed'] % 3 == 0})")
    # 2*Vpi periodicity of the output power (drive shifted through the bias argument and through the drive itself)
    y2 = lib(D.MZM, x, u_arg, bias + 2 * Vpi, Vpi, loss_dB, ER, pol)
    check(np.allclose(np.abs(y2.signal) ** 2, np.abs(y.signal) ** 2, rtol=1e-9, atol=1e-9 * scale ** 2), "mzm-not-2Vpi-periodic", "")
    if c["u"]["kind"] in ("ndarray", "full"):
        y3 = lib(D.MZM, x, u_arg + 2 * Vpi, bias, Vpi, loss_dB, ER, pol)
        check(np.allclose(np.abs(y3.signal) ** 2, np.abs(y.signal) ** 2, rtol=1e-9, atol=1e-9 * scale ** 2), "mzm-not-2Vpi-periodic", "drive")
    # on/off ratio equals ER_dB
    on = lib(D.MZM, x, 0.0, 0.0, Vpi, loss_dB, ER, pol)
    offp = lib(D.MZM, x, float(Vpi), 0.0, Vpi, loss_dB, ER, pol)
    row = 0 if (m.npol == 1 or pol == "x") else 1
    src = m.s if m.npol == 1 else m.s[row]
    ons = on.signal if m.npol == 1 else on.signal[row]
    ofs = offp.signal if m.npol == 1 else offp.signal[row]
    nzm = np.abs(src) > 1e-6
    if nzm.any():
        ratio = 10 * np.log10(np.abs(ons[nzm]) ** 2 / np.abs(ofs[nzm]) ** 2)
        check(np.allclose(ratio, ER, rtol=0, atol=1e-8), "on/off-ratio!=ER_dB", f"ER={ER}: measured {ratio[:3]}")
    # drive container equivalence
    if u.ndim == 1 and u.size == N:
        for alt in (u.copy(), electrical_signal(u.copy()), u.tolist()):
            ya = lib(D.MZM, x, alt, bias, Vpi, loss_dB, ER, pol)
            check(np.array_equal(ya.signal, y.signal) and ((ya.noise is None) == (y.noise is None)) and (y.noise is None or np.array_equal(ya.noise, y.noise)),
                  "mzm-drive-container-dependent", type(alt).__name__)
    elif u.ndim == 0:
        ya = lib(D.MZM, x, np.full(N, float(u)), bias, Vpi, loss_dB, ER, pol)
        check(np.allclose(ya.signal, y.signal, rtol=1e-15, atol=0), "mzm-drive-container-dependent", "scalar vs full array")
    g.verify()
    g.no_alias([("MZM.signal", y.signal), ("MZM.noise", y.noise)])
    g.release()
    # right after a call with drive u: (1) a twin drive with the same length, dtype, first/last sample, sum and energy (interior reversed),
    # (2) the same drive buffer edited in place - each is modulated by the waveform actually passed
    if u.ndim == 1 and u.size == N and N >= 4 and c["u"]["kind"] in ("ndarray", "es", "ripple", "int8", "uint8", "int16"):
        def closed(uv):
            th = np.pi * (uv + bias) / (2 * Vpi)
            w_ = m.s * (np.sqrt(L) * (np.cos(th) + 1j * 10 ** (-ER / 20) * np.sin(th)))
            if m.npol == 2:
                w_ = w_.copy()
                w_[1 if pol == "x" else 0] = 0
            return w_
        raw = u_arg.signal if isinstance(u_arg, electrical_signal) else u_arg
        tw = raw.copy()
        tw[1:-1] = tw[-2:0:-1]
        lib(D.MZM, x, u_arg, bias, Vpi, loss_dB, ER, pol)
        yt = lib(D.MZM, x, electrical_signal(tw) if isinstance(u_arg, electrical_signal) else tw, bias, Vpi, loss_dB, ER, pol)
        check(np.allclose(yt.signal, closed(tw.astype(float)), rtol=1e-12, atol=1e-12 * scale), "mzm-signal!=closed-form", "twin drive (interior reversed) right after the original drive")
        lib(D.MZM, x, u_arg, bias, Vpi, loss_dB, ER, pol)
        raw[1], raw[N // 2] = raw[N // 2], raw[1]
        raw[2] = raw[0]
        ye = lib(D.MZM, x, u_arg, bias, Vpi, loss_dB, ER, pol)
        check(np.allclose(ye.signal, closed(raw.astype(float)), rtol=1e-12, atol=1e-12 * scale), "mzm-signal!=closed-form", "drive buffer edited in place between two calls")
    nk = c["x"]["noise_kind"]
    nt = (nk != "none" and (m.npol == 2 or u.ndim == 1)) or ER < 10 or nk == "zero-sum"
    return {"nontrivial": bool(nt), "classes": [f"pol{m.npol}", nk, c["u"]["kind"], c["u"]["rel"], f"sel-{pol}", "ER<10" if ER < 10 else "ER>=10"]}


s_mzm_err = st.fixed_dictionaries({"n": st.integers(1, 20), "pol": st.sampled_from(["z", "X", "xy", "", 0, None]), "what": st.sampled_from(["pol", "type"])})


def e_mzm_err(c):
    reset()
    x = optical_signal(np.ones(c["n"], dtype=complex))
    if c["what"] == "pol":
        raises(ValueError, D.MZM, x, 1.0, pol=c["pol"], tag="bad-pol-accepted")
    else:
        for bad in (electrical_signal(np.ones(c["n"])), np.ones(c["n"]), [1.0] * c["n"], 1.0):
            raises(TypeError, D.MZM, bad, 1.0, tag="mzm-non-optical-accepted")
            raises(TypeError, D.PM, bad, 1.0, tag="pm-non-optical-accepted")
    return {"nontrivial": True, "classes": [c["what"]]}


@st.composite
def s_pm(draw):
    return {"x": draw(s_field()), "u": draw(s_drive(["pyfloat", "pyint", "ndarray", "full", "es", "ripple"])), "u2seed": draw(st.integers(0, 2 ** 31 - 1)),
            "Vpi": draw(st.floats(0.5, 20))}


def e_pm(c):
    reset()
    if c["x"]["nseed"] % 3 == 0:
        shadow_gv()
    x, m = build_field(c["x"])
    N = m.N
    d = dict(c["u"])
    if d["rel"] == "one":
        d["rel"] = "match"
    u_arg, u = make_drive(d, N)
    Vpi = c["Vpi"]
    g = Guard()
    g.add_signal("x", x)
    if isinstance(u_arg, electrical_signal):
        g.add_signal("u", u_arg)
    elif isinstance(u_arg, np.ndarray):
        g.add("u", u_arg)
    if u.ndim == 1 and u.size != N:
        raises(ValueError, D.PM, x, u_arg, Vpi, tag="pm-length-mismatch-accepted")
        g.verify()
        g.release()
        return {"nontrivial": False, "classes": ["mismatch", d["kind"]]}
    y = lib(D.PM, x, u_arg, Vpi)
    contract(y, "O", m.npol, N, "PM output")
    rot = np.exp(1j * np.pi * u / Vpi)
    scale = max(float(np.max(np.abs(m.s))), 1e-300)
    check(np.allclose(y.signal, m.s * rot, rtol=1e-12, atol=1e-12 * scale), "pm-signal!=rotation", "")
    check((y.noise is None) == (m.n is None), "noise-presence", f"input noise {c['x']['noise_kind']}, output noise {'None' if y.noise is None else 'present'}")
    if m.n is not None:
        check(np.allclose(y.noise, m.n * rot, rtol=1e-12, atol=1e-12 * max(float(np.max(np.abs(m.n))), 1e-300)), "pm-noise!=rotation", c["x"]["noise_kind"])
    ydf = lib(D.PM, x, u_arg)           # documented default Vpi = 5 V
    check(np.allclose(ydf.signal, m.s * np.exp(1j * np.pi * u / 5.0), rtol=1e-12, atol=1e-12 * scale * (1 + float(np.max(np.abs(u))))), "pm-default-Vpi!=5", "")
    tin = m.total
    tout = y.signal if y.noise is None else y.signal + y.noise
    check(np.allclose(np.abs(tout) ** 2, np.abs(tin) ** 2, rtol=1e-9, atol=1e-12 * scale ** 2), "pm-changes-instantaneous-power", "")
    # additivity
    rs = np.random.RandomState(c["u2seed"])
    b = rs.uniform(-5, 5, N)
    a = np.broadcast_to(u, (N,)).copy()
    lhs = lib(D.PM, lib(D.PM, x, a, Vpi), b, Vpi)
    rhs = lib(D.PM, x, a + b, Vpi)
    check(np.allclose(lhs.signal, rhs.signal, rtol=1e-9, atol=1e-9 * scale), "pm-not-additive", "signal")
    if m.n is not None:
        check(lhs.noise is not None and rhs.noise is not None and np.allclose(lhs.noise, rhs.noise, rtol=1e-9, atol=1e-9), "pm-not-additive", "noise")
    # container equivalence: scalar == ndarray == electrical_signal
    for alt in (a.copy(), electrical_signal(a.copy())):
        ya = lib(D.PM, x, alt, Vpi)
        ok = np.allclose(ya.signal, y.signal, rtol=1e-15, atol=0) and ((ya.noise is None) == (y.noise is None)) and \
            (y.noise is None or np.allclose(ya.noise, y.noise, rtol=1e-15, atol=0))
        check(ok, "pm-drive-container-dependent", type(alt).__name__)
    g.verify()
    g.no_alias([("PM.signal", y.signal), ("PM.noise", y.noise)])
    g.release()
    nk = c["x"]["noise_kind"]
    return {"nontrivial": (nk != "none" and (m.npol == 2 or u.ndim == 1)) or nk == "zero-sum", "classes": [f"pol{m.npol}", nk, d["kind"]]}


@st.composite
def s_laser(draw):
    n = draw(st.sampled_from([16, 64, 100, 128, 255, 256, 1000, 1024]))
    return {"gv": draw(s_gv(sps_max=32)), "n": n, "p": draw(st.floats(-30, 30)), "lw": draw(st.one_of(st.none(), st.floats(3, 8).map(lambda e: 10 ** e))),
            "rin_rel": draw(st.one_of(st.none(), st.none(), st.floats(-60, -20))), "k": draw(st.integers(-(n // 2) + 1, n // 2 - 1)),
            "seed": draw(st.integers(0, 2 ** 31 - 1)), "beyond": draw(st.floats(1.001, 5))}


def e_laser(c):
    reset()
    sps, R, fs = apply_gv(c["gv"])
    n = c["n"]
    t = np.arange(n) / fs
    df = c["k"] * fs / n
    g = Guard()
    g.add("t", t)
    # RIN in dB/Hz chosen relative to the sampling rate so that the relative intensity noise has std <= 0.1
    # (LASER rejects noise that would drive the power negative)
    rin = None if c["rin_rel"] is None else c["rin_rel"] - 10 * np.log10(fs)
    np.random.seed(c["seed"])
    E = lib(D.LASER, t, c["p"], c["lw"], rin, df)
    contract(E, "O", 1, n, "LASER output")
    check(E.noise is None, "laser-noise-component", "")
    P = 10 ** (c["p"] / 10) * 1e-3
    if rin is None:
        check(np.allclose(np.abs(E.signal) ** 2, P, rtol=1e-9, atol=0), "laser-|E|^2!=P", f"p={c['p']} dBm lw={c['lw']} df={df}")
    if rin is None and c["lw"] is None:
        pk = int(np.argmax(np.abs(np.fft.fft(E.signal))))
        check(pk == c["k"] % n, "laser-spectral-peak!=df", f"k={c['k']} peak bin {pk}")
    np.random.seed(c["seed"])
    E2 = lib(D.LASER, t, c["p"], c["lw"], rin, df)
    check(np.array_equal(E.signal, E2.signal), "laser-not-reproducible-under-seed", "")
    # the frequency-offset term is a pure rotation exp(j*2*pi*df*t), whatever the other terms are (same seed, df omitted)
    np.random.seed(c["seed"])
    E0 = lib(D.LASER, t, c["p"], c["lw"], rin, None)
    rot = np.exp(2j * np.pi * df * t)
    check(np.allclose(E.signal, E0.signal * rot, rtol=1e-9, atol=1e-12 * np.sqrt(P)), "laser-offset-term-not-a-rotation-by-df",
          f"lw={c['lw']} rin={rin} df={df:.4g}: max dev {np.max(np.abs(E.signal - E0.signal * rot)):.3e}")
    # phase noise alone is a pure rotation of the CW field
    np.random.seed(c["seed"])
    Ecw = lib(D.LASER, t, c["p"], None, None, None)
    np.random.seed(c["seed"])
    Elw = lib(D.LASER, t, c["p"], c["lw"], None, None)
    check(np.allclose(np.abs(Elw.signal), np.abs(Ecw.signal), rtol=1e-12, atol=0), "laser-phase-noise-changes-power", "")
    if c["lw"] is not None and rin is None and np.sqrt(2 * np.pi * c["lw"] * n / fs) <= 0.3:
        pk = int(np.argmax(np.abs(np.fft.fft(E.signal))))
        check(pk == c["k"] % n, "laser-spectral-peak!=df", f"narrow linewidth {c['lw']:.3g} Hz: k={c['k']} peak bin {pk}")
    raises(ValueError, D.LASER, t, c["p"], None, None, c["beyond"] * fs / 2, tag="laser-offset-beyond-nyquist-accepted")
    raises(ValueError, D.LASER, t, c["p"], None, None, -c["beyond"] * fs / 2, tag="laser-offset-beyond-nyquist-accepted")
    g.verify()
    g.no_alias([("LASER.signal", E.signal)])
    g.release()
    return {"nontrivial": c["lw"] is not None or c["k"] != 0, "classes": ["lw" if c["lw"] else "no-lw", "rin" if rin is not None else "no-rin", c["gv"]["form"]]}


PARTS = [
    Part("mzm", e_mzm, s_mzm(), quick=1200, thorough=48000, shards=8, rule="closed-form transfer on signal and noise, passivity, ER, periodicity, containers"),
    Part("mzm_err", e_mzm_err, s_mzm_err, quick=60, thorough=1800, shards=1, rule="invalid pol / non-optical input"),
    Part("pm", e_pm, s_pm(), quick=1200, thorough=48000, shards=8, rule="rotation of signal and noise, power invariance, additivity, containers"),
    Part("laser", e_laser, s_laser(), quick=500, thorough=18000, shards=4, rule="|E|^2=P without RIN, spectral peak at df, seeded repeat, Nyquist guard"),
]
