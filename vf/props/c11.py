"""C11 - LPF/BPF are linear zero-phase filters with unit DC gain and -6 dB at cutoff."""
import numpy as np
from hypothesis import strategies as st
from numpy.fft import fftfreq, fftshift

from ..core import Violation, check, lib, raises, Guard
from ..lib import reset, gv, D, electrical_signal, optical_signal
from ..runner import Part
from ..sigs import s_gv, apply_gv, contract

RULE = ("real (LPF) and complex 1/2-pol (BPF) records of 64..8192 samples, orders 1..8, cutoffs in (0.01,0.45)*fs placed on a grid bin, fs through gv and "
        "through LPF's fs= argument; oracles: linearity, identical/independent action on signal, noise and each polarisation, constant passes, on-grid tone "
        "gains measured over the middle half of the record (<=1 everywhere, 6.02+-0.05 dB at cutoff, monotone ladder), symmetric-pulse symmetry, retH vs "
        "measured gain; non-trivial: order != 4 or cutoff outside [0.05,0.3]*fs or 2-pol or noise present")
ASSUMPTIONS = [
    "tone measurements use records of >= 1024 samples with >= 16 cycles of the cutoff frequency so that edge transients do not reach the middle half",
    "tolerances: linearity/identity 1e-9 relative, attenuation at cutoff 6.02 +- 0.05 dB (observed deviation < 1e-7 dB), monotonicity 1e-6",
]


@st.composite
def s_lin(draw):
    n = draw(st.one_of(st.integers(64, 512), st.sampled_from([64, 65, 127, 128, 1000, 1024, 4096, 8192])))
    return {"which": draw(st.sampled_from(["lpf", "bpf"])), "N": n, "order": draw(st.integers(1, 8)), "cut": draw(st.floats(0.0101, 0.4499)),
            "gv": draw(s_gv(sps_max=64)), "npol": draw(st.sampled_from([1, 2])), "noise": draw(st.booleans()), "seed": draw(st.integers(0, 2 ** 31 - 1)),
            "a": [draw(st.floats(-3, 3)), draw(st.floats(-3, 3))], "b": [draw(st.floats(-3, 3)), draw(st.floats(-3, 3))],
            "const": [draw(st.floats(-5, 5)), draw(st.floats(-5, 5))], "fs_arg": draw(st.booleans()), "default_order": draw(st.booleans()),
            "scale": draw(st.sampled_from([1.0, 1.0, 1e-9, 1e6, 1e-3])), "intrec": draw(st.booleans())}


def relerr(a, b):
    den = max(1e-300, float(np.max(np.abs(b))))
    return float(np.max(np.abs(a - b))) / den if np.size(a) else 0.0


def e_lin(c):
    reset()
    sps, R, fs = apply_gv(c["gv"])
    N, order = c["N"], c["order"]
    BW = c["cut"] * fs
    # the cutoff as the scalar types a sweep hands over (np.arange(...)*1e9 gives numpy integers, a float32 axis gives float32, x[()] a 0-d array)
    form = ["float", "float", "np.float64", "np.int64", "np.float32", "0-d", "int"][c["seed"] % 7]
    BWarg = {"float": float, "np.float64": np.float64, "np.int64": lambda v: np.int64(round(v)), "np.float32": np.float32, "0-d": lambda v: np.asarray(float(v)),
             "int": lambda v: int(round(v))}[form](BW)
    BW = float(BWarg)
    rs = np.random.RandomState(c["seed"])
    lpf = c["which"] == "lpf"
    okw = {} if c["default_order"] else {"n": order}
    if c["default_order"]:
        order = 4
    sc = c.get("scale", 1.0)
    if lpf:
        x1, x2 = rs.standard_normal(N) * sc, rs.standard_normal(N) * sc
        nz = rs.standard_normal(N) * sc * 1e-3 if c["noise"] else None
        a, b = c["a"][0], c["b"][0]
        F = lambda v: lib(D.LPF, electrical_signal(v), BW, **okw)  # noqa: E731
        X = electrical_signal(x1.copy(), None if nz is None else nz.copy())
        g = Guard()
        g.add_signal("x", X)
        Y = lib(D.LPF, X, BWarg, **okw)
        contract(Y, "E", 1, N, "LPF output")
        check(Y.signal.dtype.kind == "f", "lpf-output-not-real", str(Y.signal.dtype))
        check((Y.noise is None) == (nz is None), "noise-presence", "LPF")
        check(np.array_equal(Y.signal, F(x1).signal), "lpf-signal-depends-on-noise", "")
        if nz is not None:
            check(np.array_equal(Y.noise, F(nz).signal), "lpf-noise-filtered-differently", f"rel err {relerr(Y.noise, F(nz).signal):.2e}")
        # ndarray input == container input
        Ya = lib(D.LPF, x1.copy(), BW, **okw)
        contract(Ya, "E", 1, N, "LPF(ndarray) output")
        check(np.array_equal(Ya.signal, Y.signal) and Ya.noise is None, "lpf-ndarray!=container", "")
        # fs argument == the same rate configured in gv
        if c["fs_arg"]:
            f2 = fs * 2.5
            Yf = lib(D.LPF, x1.copy(), BW, fs=f2, **okw)
            gv(sps=sps, fs=f2)
            Yg = lib(D.LPF, x1.copy(), BW, **okw)
            check(np.array_equal(Yf.signal, Yg.signal), "lpf-fs-argument-ignored", "")
            gv(sps=sps, fs=fs)
            # ... and with the noise-bearing container: both components filtered at the rate given
            Xf = lib(D.LPF, X, BW, fs=f2, **okw)
            check(np.array_equal(Xf.signal, Yf.signal), "lpf-fs-argument-ignored", "container signal")
            if nz is not None:
                check(Xf.noise is not None and np.array_equal(Xf.noise, lib(D.LPF, nz.copy(), BW, fs=f2, **okw).signal), "lpf-noise-filtered-differently",
                      "explicit fs= different from gv.fs")
        lin = F(a * x1 + b * x2).signal
        ref = a * F(x1).signal + b * F(x2).signal
        check(relerr(lin, ref) <= 1e-9, "lpf-not-linear", f"rel err {relerr(lin, ref):.2e}")
        k0 = c["const"][0] * sc
        yc = F(np.full(N, k0)).signal
        check(np.max(np.abs(yc - k0)) <= 1e-9 * abs(k0) + 1e-300, "lpf-constant-not-passed", f"const {k0}: max dev {np.max(np.abs(yc - k0)):.2e}")
        if c.get("intrec"):
            xi = rs.randint(-50, 51, N)                      # an integer-valued record (ADC codes, bit patterns) given as an int ndarray
            yi = lib(D.LPF, xi.copy(), BW, **okw)
            check(relerr(yi.signal, F(xi.astype(float)).signal) <= 1e-12, "lpf-int-record-filtered-differently", f"rel err {relerr(yi.signal, F(xi.astype(float)).signal):.2e}")
        g.verify()
        g.no_alias([("LPF.signal", Y.signal), ("LPF.noise", Y.noise)])
        g.release()
        for bad in ([1.0] * N, (1.0,) * N, "1 2 3", 3.0):
            raises(TypeError, D.LPF, bad, BW, tag="lpf-bad-input-type-accepted")
        npol = 1
    else:
        npol = c["npol"]
        shape = (N,) if npol == 1 else (2, N)
        cg = lambda: (rs.standard_normal(shape) + 1j * rs.standard_normal(shape)) * sc  # noqa: E731
        x1, x2 = cg(), cg()
        nz = cg() if c["noise"] else None
        a, b = complex(*c["a"]), complex(*c["b"])
        F = lambda v: lib(D.BPF, optical_signal(v, n_pol=npol), BW, **okw)  # noqa: E731
        X = optical_signal(x1.copy(), None if nz is None else nz.copy(), n_pol=npol)
        g = Guard()
        g.add_signal("x", X)
        Y = lib(D.BPF, X, BWarg, **okw)
        contract(Y, "O", npol, N, "BPF output")
        check((Y.noise is None) == (nz is None), "noise-presence", "BPF")
        check(np.array_equal(Y.signal, F(x1).signal), "bpf-signal-depends-on-noise", "")
        if nz is not None:
            check(np.array_equal(Y.noise, F(nz).signal), "bpf-noise-filtered-differently", "")
        # an object as an amplifier returns it for a real-valued field: the signal keeps its real type, the noise is complex
        if c["seed"] % 3 == 0:
            np.random.seed(c["seed"] % 2 ** 32)
            XE = lib(D.EDFA, optical_signal(x1.real.copy(), n_pol=npol), 10.0, 5.0)
            YE = lib(D.BPF, XE, BW, **okw)
            for nm_ in ("signal", "noise"):
                one = lib(D.BPF, optical_signal(getattr(XE, nm_).copy(), n_pol=2), BW, **okw).signal
                check(getattr(YE, nm_).shape == one.shape and relerr(getattr(YE, nm_), one) <= 1e-12, "bpf-noise-filtered-differently",
                      f"{nm_} of an EDFA output (signal dtype {XE.signal.dtype}, noise dtype {XE.noise.dtype}): rel err {relerr(getattr(YE, nm_), one):.2e}")
        if npol == 2:
            for i in (0, 1):
                yi = lib(D.BPF, optical_signal(x1[i].copy()), BW, **okw)
                check(relerr(yi.signal, Y.signal[i]) <= 1e-12, "bpf-polarisations-not-independent", f"row {i}")
        lin = F(a * x1 + b * x2).signal
        ref = a * F(x1).signal + b * F(x2).signal
        check(relerr(lin, ref) <= 1e-9, "bpf-not-linear", f"rel err {relerr(lin, ref):.2e}")
        k0 = complex(*c["const"]) * sc
        yc = F(np.full(shape, k0)).signal
        check(np.max(np.abs(yc - k0)) <= 1e-9 * abs(k0) + 1e-300, "bpf-constant-not-passed", f"max dev {np.max(np.abs(yc - k0)):.2e}")
        g.verify()
        g.no_alias([("BPF.signal", Y.signal), ("BPF.noise", Y.noise)])
        g.release()
        for bad in (electrical_signal(np.ones(N)), np.ones(N, dtype=complex), [1.0] * N):
            raises(TypeError, D.BPF, bad, BW, tag="bpf-bad-input-type-accepted")
    nt = order != 4 or not (0.05 <= c["cut"] <= 0.3) or npol == 2 or c["noise"]
    return {"nontrivial": bool(nt), "classes": [c["which"], f"order{order}", f"pol{npol}", "noise" if c["noise"] else "clean", c["gv"]["form"],
                                                 "lowcut" if c["cut"] < 0.05 else "highcut" if c["cut"] > 0.3 else "midcut", "BW:" + form]}


@st.composite
def s_tone(draw):
    N = draw(st.sampled_from([1024, 2048, 4096, 8192, 2047, 4095]))
    kmin = max(16, int(0.01 * N) + 1)
    k = draw(st.integers(kmin, int(0.45 * N) - 1))
    return {"which": draw(st.sampled_from(["lpf", "bpf"])), "N": N, "k": k, "order": draw(st.integers(1, 8)), "gv": draw(s_gv(sps_max=64)),
            "ladder": draw(st.lists(st.floats(0.02, 2.2), min_size=4, max_size=8)), "sign": draw(st.sampled_from([1, -1])), "npol": draw(st.sampled_from([1, 2])),
            "amp": draw(st.floats(0.1, 10)), "width": draw(st.floats(1, 40))}


def e_tone(c):
    reset()
    sps, R, fs = apply_gv(c["gv"])
    N, k, order = c["N"], c["k"], c["order"]
    lpf = c["which"] == "lpf"
    t = np.arange(N)
    mid = slice(N // 4, 3 * N // 4)
    if lpf:
        BW = k * fs / N                                   # cutoff on a grid bin
        kc = k

        def gain(kk):
            x = c["amp"] * np.cos(2 * np.pi * kk * t / N + 0.3)
            y = lib(D.LPF, x, BW, order).signal
            return float(np.sqrt(np.mean(y[mid] ** 2) / np.mean(x[mid] ** 2)))
    else:
        BW = 2 * k * fs / N                               # BW/2 either side of the carrier on a grid bin
        if BW / 2 >= 0.45 * fs:
            BW = 2 * (k // 2) * fs / N
        kc = int(round(BW / 2 * N / fs))
        npol = c["npol"]

        def gain(kk):
            x = c["amp"] * np.exp(1j * (2 * np.pi * c["sign"] * kk * t / N + 0.3))
            X = optical_signal(x if npol == 1 else np.array([x, 0.5 * x]), n_pol=npol)
            y = lib(D.BPF, X, BW, order).signal
            if npol == 2:
                check(np.allclose(y[1], 0.5 * y[0], rtol=1e-9, atol=1e-12), "bpf-polarisations-not-independent", "")
                y = y[0]
            return float(np.mean(np.abs(y[mid])) / c["amp"])
    gc = gain(kc)
    att = -20 * np.log10(gc)
    check(abs(att - 6.0206) <= 0.05, "attenuation-at-cutoff!=6dB", f"{c['which']} order {order} cutoff bin {kc}/{N}: {att:.4f} dB")
    ks = sorted({max(1, min(N // 2 - 1, int(round(r * kc)))) for r in c["ladder"]} | {kc})
    gains = [gain(kk) for kk in ks]
    check(all(gg <= 1 + 1e-9 for gg in gains), "tone-amplified", f"gains {gains}")
    check(all(g2 <= g1 + 1e-6 for g1, g2 in zip(gains, gains[1:])), "attenuation-not-monotone", f"bins {ks} gains {gains}")
    # the same numeric cutoff after the sampling rate was re-configured in this process: the -6 dB point stays at the cutoff
    for ratio in (2.0, 0.5):
        kc2 = kc / ratio
        if abs(kc2 - round(kc2)) > 1e-9 or not (0.012 * N <= kc2 <= 0.44 * N) or kc2 < 16:
            continue
        kc2 = int(round(kc2))
        gv(sps=sps, fs=fs * ratio)
        g2 = gain(kc2)
        gv(sps=sps, fs=fs)
        check(abs(-20 * np.log10(g2) - 6.0206) <= 0.05, "cutoff-follows-stale-sampling-rate",
              f"{c['which']} order {order}: cutoff {BW:.4g} Hz, fs {fs:.4g} -> {fs * ratio:.4g}: {-20 * np.log10(g2):.4f} dB at the cutoff bin {kc2}/{N}")
        break
    # zero delay: symmetric pulse on an odd-length record
    M = N if N % 2 else N - 1
    ctr = (M - 1) // 2
    tt = np.arange(M) - ctr
    pulse = np.exp(-0.5 * (tt / c["width"]) ** 2)
    if lpf:
        yp = lib(D.LPF, pulse, BW, order).signal
    else:
        yp = lib(D.BPF, optical_signal(pulse.astype(complex)), BW, order).signal
    check(np.max(np.abs(yp - yp[::-1])) <= 1e-9 * np.max(np.abs(yp)), "delay-introduced", f"asymmetry {np.max(np.abs(yp - yp[::-1])):.2e}")
    check(int(np.argmax(np.abs(yp))) == ctr, "delay-introduced", f"peak at {int(np.argmax(np.abs(yp)))} instead of {ctr}")
    # retH: single-pass prototype on the record's frequency grid, consistent with the filter applied
    if lpf:
        x = np.cos(2 * np.pi * kc * t / N)
        out, H = lib(D.LPF, x, BW, order, None, True)
        contract(out, "E", 1, N, "LPF(retH) output")
        check(isinstance(H, np.ndarray) and H.shape == (N,), "retH-shape", f"{getattr(H, 'shape', None)}")
        f = fftshift(fftfreq(N)) * fs
        i0 = int(np.argmin(np.abs(f)))
        check(abs(H[i0] - 1) <= 1e-9, "retH(0)!=1", f"{H[i0]}")
        ic = int(np.argmin(np.abs(f - BW)))
        check(abs(abs(H[ic]) - 1 / np.sqrt(2)) <= 1e-6, "retH(BW)!=1/sqrt2", f"|H|={abs(H[ic]):.6f} at f={f[ic]:.4e} (BW={BW:.4e})")
        check(abs(abs(H[N - 1 - ic + (1 if N % 2 == 0 else 0)]) - abs(H[ic])) <= 1e-9 if 0 < N - 1 - ic + (1 if N % 2 == 0 else 0) < N else True, "retH-not-even", "")
        for kk, gg in zip(ks, gains):
            ik = int(np.argmin(np.abs(f - kk * fs / N)))
            check(abs(abs(H[ik]) ** 2 - gg) <= 1e-6, "retH!=applied-filter", f"bin {kk}: |H|^2 {abs(H[ik]) ** 2:.8f} vs measured gain {gg:.8f}")
        # the caller owns the returned response: converting it in place (e.g. to dB) must not change what the same call returns next
        H_first = H.copy()
        try:
            H[...] = 20 * np.log10(np.abs(H) + 1e-300)
        except ValueError:
            raise Violation("retH-not-writable", "") from None
        out1, H1 = lib(D.LPF, x, BW, order, None, True)
        check(H1 is not H and np.array_equal(H1, H_first) and np.array_equal(out1.signal, out.signal), "retH-results-share-state",
              f"max |H(second call) - H(first call)| = {np.max(np.abs(H1 - H_first)):.3e} after the first result was edited in place")
        H = H_first
        # the same through the explicit fs= argument while gv holds another sampling rate: same grid, same response
        gv(sps=sps, fs=fs * 2.5)
        out2, H2 = lib(D.LPF, x, BW, order, fs, True)
        gv(sps=sps, fs=fs)
        check(np.array_equal(out2.signal, out.signal), "lpf-fs-argument-ignored", "")
        check(isinstance(H2, np.ndarray) and H2.shape == (N,) and np.max(np.abs(H2 - H)) <= 1e-9, "retH-on-the-wrong-grid-with-explicit-fs",
              f"max |H(fs=...) - H| = {np.max(np.abs(H2 - H)) if isinstance(H2, np.ndarray) and H2.shape == (N,) else 'shape'}")
    return {"nontrivial": order != 4 or kc / N < 0.05 or kc / N > 0.3 or not lpf, "classes": [c["which"], f"order{order}", "odd-N" if N % 2 else "even-N", c["gv"]["form"]]}


PARTS = [
    Part("linear", e_lin, s_lin(), quick=700, thorough=20000, shards=8, rule="linearity, identical action on signal/noise/polarisations, constants, containers, fs argument"),
    Part("tones", e_tone, s_tone(), quick=400, thorough=12500, shards=8, quick_shards=2, rule="tone gains, cutoff attenuation, monotone ladder, zero delay, retH"),
]
