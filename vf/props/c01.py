"""C01 - signal containers keep their shape/noise contract; operands are never touched."""
import numpy as np
from hypothesis import strategies as st

from ..core import check, lib, raises, Guard, mk
from ..lib import electrical_signal, optical_signal, reset
from ..runner import Part
from ..sigs import s_signal, s_len, s_arr, build, contract, same_model, Model, CLS

RULE = ("constructor forms, single +,-,* operations with every operand kind (reflected included), slices/copy, and expression trees of depth "
        "<=6, each evaluated in lock-step against a plain (signal, noise) numpy array-pair model with write-protected operands; "
        "non-trivial: noise on exactly one side, length-1 noisy operand, 2-pol slice to length 1, reflected list/str, mixed dtypes, depth>=3")
ASSUMPTIONS = [
    "mixed polarisation-count operand pairs (1-pol object with 2-pol object) are not generated: 'same polarisation count' is undefined for them",
    "a length-1 LEFT operand combined with a longer right operand may broadcast or raise ValueError (both accepted)",
    "for '*' and the domain transform only class/layout/length/contract/no-alias/no-mutation are asserted (values: C02; noise semantics of '*' unspecified)",
    "numpy-integer slice indices and ndarrays on the left-hand side are not generated (outside the listed forms)",
]

# ==================================================================================================
# (a) constructors

DTY = {None: None, "int": int, "float": float, "complex": complex}


@st.composite
def s_ctor(draw):
    cls = draw(st.sampled_from(["E", "O", "O"]))
    form = draw(st.sampled_from(["pyscalar", "npscalar", "list", "tuple", "ndarray", "str"]))
    if form in ("pyscalar", "npscalar"):
        rank = 0
    elif cls == "E":
        rank = draw(st.sampled_from([1, 1, 1, "1xN", "2xN"]))
    else:
        rank = draw(st.sampled_from([1, "1xN", "2xN", "2xN"]))
    if form == "str" and rank == "1xN":
        rank = 1
    dt = draw(st.sampled_from(["i", "f", "c"]))
    dtype = draw(st.sampled_from([None, None, "int", "float", "complex"]))
    if dtype == "int" and dt != "i":
        dtype = None
    if dtype == "float" and dt == "c":
        dtype = "complex"
    return {"cls": cls, "form": form, "rank": rank, "n": draw(s_len(40)), "dt": dt, "seed": draw(st.integers(0, 2 ** 31 - 1)),
            "noise": draw(st.booleans()), "n_pol": draw(st.sampled_from([None, None, 1, 2])) if cls == "O" else None, "dtype": dtype}


def _values(rs, shape, dt):
    re = rs.randint(-8, 9, size=shape) / (1 if dt == "i" else 4)
    if dt == "c":
        return re + 1j * rs.randint(-8, 9, size=shape) / 4
    return re.astype(int) if dt == "i" else re


def _tok(v, dt):
    if dt == "i":
        return "%d" % v
    if dt == "f":
        return "%.2f" % v
    return "%.2f%+.2fj" % (v.real, v.imag)


def _as_form(a, form, dt):
    if form == "pyscalar":
        return {"i": int, "f": float, "c": complex}[dt](a[()])
    if form == "npscalar":
        return a[()]
    if form == "list":
        return a.tolist()
    if form == "tuple":
        return tuple(map(tuple, a.tolist())) if a.ndim == 2 else tuple(a.tolist())
    if form == "ndarray":
        return a.copy()
    rows = a if a.ndim == 2 else a[None, :]
    return ";".join(" ".join(_tok(v, dt) for v in r) for r in rows)


def e_ctor(c):
    reset()
    rs = np.random.RandomState(c["seed"])
    n, rank, dt, cls = c["n"], c["rank"], c["dt"], c["cls"]
    shape = {0: (), 1: (n,), "1xN": (1, n), "2xN": (2, n)}[rank]
    a = np.asarray(_values(rs, shape, dt))
    b = np.asarray(_values(rs, shape, dt)) if c["noise"] else None
    if c["form"] == "ndarray" and c["seed"] % 4 == 0 and not c["dtype"]:
        nt_ = {"i": np.int32, "f": np.float32, "c": np.complex64}[dt]       # narrower widths are kept as given
        a = a.astype(nt_)
        b = None if b is None else b.astype(nt_)
    if c["form"] == "str" and dt == "i":
        # text made only of the digits 0/1 would be read digit by digit: make sure it is not
        a = np.where(np.isin(a, (0, 1, 10, 11)), a + 2, a)
        if b is not None:
            b = np.where(np.isin(b, (0, 1, 10, 11)), b + 2, b)
        a.flat[0] = 5
        if b is not None:
            b.flat[0] = -3
    sa, sb = _as_form(a, c["form"], dt), (None if b is None else _as_form(b, c["form"], dt))
    C = CLS[cls]
    kw = {}
    if c["dtype"]:
        kw["dtype"] = DTY[c["dtype"]]
    if cls == "O" and c["n_pol"]:
        kw["n_pol"] = c["n_pol"]
    g = Guard()
    if isinstance(sa, np.ndarray):
        g.add("signal-arg", sa)
        g.add("noise-arg", sb)
    if cls == "E" and rank in ("1xN", "2xN"):
        raises(ValueError, C, sa, sb, tag="2d-electrical-accepted", **kw)
        return {"nontrivial": False, "classes": ["E-2d-rejected"]}
    obj = lib(C, sa, sb, **kw)

    def layout(v):
        if cls == "E":
            return v.reshape(-1) if rank == 0 else v
        npol = c["n_pol"] or (1 if rank in (0, 1) else 2)
        row = v.reshape(-1) if rank in (0, 1) else v[0]
        if npol == 1:
            return row
        return v if rank == "2xN" else np.array([row, row])
    es, en = layout(a), (None if b is None else layout(b))
    if c["dtype"]:
        es = es.astype(DTY[c["dtype"]])
        en = None if en is None else en.astype(DTY[c["dtype"]])
    elif en is not None:
        rt = np.result_type(es, en)
        es, en = es.astype(rt), en.astype(rt)
    npol = 1 if cls == "E" else (c["n_pol"] or (1 if rank in (0, 1) else 2))
    same_model(obj, Model(cls, npol, es, en), f"{C.__name__}({c['form']},{rank})", exact=(c["form"] != "str"), tol=1e-12)
    if c["dtype"]:
        want = {"int": "i", "float": "f", "complex": "c"}[c["dtype"]]
        check(obj.signal.dtype.kind == want, "dtype-not-honoured", f"{obj.signal.dtype} for dtype={c['dtype']}")
    g.verify()
    g.no_alias([("signal", obj.signal), ("noise", obj.noise)])
    g.release()
    return {"nontrivial": c["noise"] and (rank != 1 or c["n_pol"] == 2), "classes": [cls, c["form"], f"rank{rank}", f"npol={c['n_pol']}", "noise" if c["noise"] else "clean"]}


s_bad = st.fixed_dictionaries({"cls": st.sampled_from(["E", "O"]), "what": st.sampled_from(["3xN", "3d", "empty", "mismatch", "mismatch2", "empty2d"]),
                               "n": st.integers(1, 9), "form": st.sampled_from(["list", "ndarray"])})


def e_bad(c):
    reset()
    C = CLS[c["cls"]]
    n = c["n"]
    w = c["what"]
    if w == "3xN":
        a, b = np.ones((3, n)), None
    elif w == "3d":
        a, b = np.ones((2, n, 2)), None
    elif w == "empty":
        a, b = np.ones((0,)), None
    elif w == "empty2d":
        a, b = np.ones((2, 0)), None
    elif w == "mismatch":
        a, b = np.ones(n), np.ones(n + 1)
    else:
        a, b = (np.ones((2, n)), np.ones(n)) if c["cls"] == "O" else (np.ones(n + 2), np.ones(n))
    if c["form"] == "list":
        a, b = a.tolist(), (None if b is None else b.tolist())
    raises(ValueError, C, a, b, tag=f"ctor-{w}-accepted")
    return {"nontrivial": True, "classes": [w]}


# ==================================================================================================
# (b) single operations

YKINDS = ["obj", "obj", "obj", "pyint", "pyfloat", "pycomplex", "list", "tuple", "str", "bits", "ndarray", "npscalar"]
REFL_OK = {"pyint", "pyfloat", "pycomplex", "list", "tuple", "str", "bits"}


@st.composite
def s_operand(draw, n, cls, npol, allow_diff=True):
    """second operand for a node whose left operand has length n"""
    kind = draw(st.sampled_from(YKINDS))
    rel = draw(st.sampled_from(["equal", "equal", "equal", "one", "diff"] if allow_diff else ["equal", "equal", "one"]))
    if kind in ("pyint", "pyfloat", "pycomplex", "npscalar"):
        rel = "scalar"
    L = n if rel in ("equal", "scalar") else (1 if rel == "one" else n + draw(st.integers(1, 3)))
    if rel == "diff" and L == 1:
        L = n + 2
    if rel == "one" and n == 1:
        rel = "equal"
    d = {"kind": kind, "rel": rel, "L": L, "seed": draw(st.integers(0, 2 ** 31 - 1)), "dt": draw(st.sampled_from(["i", "f", "c"])),
         "refl": draw(st.booleans()) if kind in REFL_OK else False}
    if kind == "obj":
        d["spec"] = draw(s_signal(n=L, cls=cls, npol=npol, lmax=64))
    elif kind in ("list", "tuple", "ndarray"):
        d["two_rows"] = npol == 2 and draw(st.booleans())
    return d


def make_operand(d, cls, npol):
    """-> (python value handed to the operator, signal array, noise array or None, guard-able arrays)"""
    rs = np.random.RandomState(d["seed"])
    k = d["kind"]
    if k == "obj":
        obj, m = build(d["spec"])
        return obj, m.s, m.n
    if k == "pyint":
        v = int(rs.randint(-5, 6))
        return v, np.asarray(v), None
    if k == "pyfloat":
        # dyadic values (exact in any float width) and arbitrary ones (0.1, 1/3, pi, 1e-3, 1e-9 ...)
        v = float(rs.randint(-20, 21) / 4) if rs.randint(0, 2) else float(rs.choice([0.1, 0.3, 1 / 3, np.pi, 1e-3, 2.7, 1e-9, 12345.678, 0.0]) * rs.choice([-1, 1]))
        return v, np.asarray(v), None
    if k == "pycomplex":
        v = complex(rs.randint(-8, 9) / 4, rs.randint(-8, 9) / 4) if rs.randint(0, 2) else complex(rs.choice([0.1, 1 / 3, 1e-3]), rs.choice([0.3, np.pi, 0.0, 1e-9]))
        return v, np.asarray(v), None
    if k == "npscalar":
        v = [np.int64(rs.randint(-5, 6)), np.float64(rs.randint(-20, 21) / 4), np.complex128(complex(rs.randint(-8, 9), rs.randint(-8, 9))),
             np.float64(rs.choice([0.1, 1 / 3, np.pi, 1e-3])), np.float32(0.1), np.int32(3), np.complex64(0.1 + 0.3j)][rs.randint(0, 7)]
        return v, np.asarray(v), None
    L = d["L"]
    if k == "bits":
        bits = rs.randint(0, 2, L)
        return "".join(map(str, bits)), bits.astype(bool), None
    if k == "str":
        vals = rs.randint(2, 9, L) * rs.choice([-1, 1], L)
        return " ".join("%d" % v for v in vals), vals, None
    shape = (2, L) if d.get("two_rows") else (L,)
    a = np.asarray(_values(rs, shape, d["dt"]))
    if k == "ndarray" and d["seed"] % 3 == 0:
        # narrower widths (promotion / wrap-around happen in numpy exactly as in the model)
        a = a.astype({"i": [np.int32, np.int16, np.uint8][d["seed"] % 9 // 3], "f": np.float32, "c": np.complex64}[d["dt"]])
    if k == "list":
        return a.tolist(), a, None
    if k == "tuple":
        return (tuple(map(tuple, a.tolist())) if a.ndim == 2 else tuple(a.tolist())), a, None
    return a.copy(), a, None


def apply_op(op, x, y, refl):
    if op == "+":
        return (y + x) if refl else (x + y)
    if op == "-":
        return (y - x) if refl else (x - y)
    return (y * x) if refl else (x * y)


def model_op(op, m, ys, yn, refl):
    """array-pair model of + and - (numpy broadcasting); returns Model"""
    if op == "+":
        s = m.s + ys
    else:
        s = (ys - m.s) if refl else (m.s - ys)
    if m.n is None and yn is None:
        n = None
    else:
        a = m.n if m.n is not None else 0
        b = yn if yn is not None else 0
        n = (a + b) if op == "+" else ((b - a) if refl else (a - b))
        n = np.broadcast_to(np.asarray(n), s.shape).copy()
    return Model(m.cls, m.npol, s, n)


WRAPPED = {"pyint", "pyfloat", "pycomplex", "list", "tuple", "str"}      # operand kinds the operators wrap into a 64-bit array
NARROW = {"int8": "i", "int16": "i", "uint8": "i", "float32": "f", "complex64": "c"}


@st.composite
def s_binop(draw, force_huge=False):
    import os
    huge = force_huge or draw(st.integers(1, 2 ** 30)) % 150 == 7
    x = draw(s_signal(n=draw(st.sampled_from([131072, 140001, 2 ** 18])), fams=["smallint", "unif", "alt"]) if huge else s_signal(lmax=64))
    n = x["sig"]["n"]
    y = draw(s_operand(n, x["cls"], x["npol"]))
    if huge and y["kind"] in ("str", "bits", "list", "tuple"):
        y["kind"], y["refl"], y["spec"] = "obj", False, draw(s_signal(n=y["L"], cls=x["cls"], npol=x["npol"], fams=["smallint", "unif"]))
    if huge and y["kind"] == "obj" and draw(st.booleans()):
        y["spec"]["sig"]["dt"] = x["sig"]["dt"]              # same dtype on both sides
        if y["spec"]["noise"]:
            y["spec"]["noise"]["dt"] = x["sig"]["dt"]
        if x["noise"]:
            x["noise"]["dt"] = x["sig"]["dt"]
    c = {"x": x, "op": draw(st.sampled_from(["+", "-", "*"])), "y": y, "protect": draw(st.sampled_from([True, False] if force_huge else [True, True, False]))}
    nw = draw(st.sampled_from([None, None] + sorted(NARROW)))
    if nw and y["kind"] in WRAPPED and NARROW[nw] == x["sig"]["dt"] and (x["noise"] is None or x["noise"]["dt"] == x["sig"]["dt"]):
        c["narrow"] = nw                                      # x holds a narrow dtype, integers close to the top of its range
    return c


def narrow_x(c, x, xm):
    """x rebuilt on a narrow dtype (ints moved next to the top of the range); the model keeps the same values in 64-bit arithmetic"""
    nw = c.get("narrow")
    if not nw:
        return x, xm, False
    dt = np.dtype(nw)
    if dt.kind in "iu":
        hi = int(np.iinfo(dt).max)
        s = (xm.s % 11) + hi - 12
        n = None if xm.n is None else np.abs(xm.n) % 5
    else:
        s = xm.s.astype(dt)
        n = None if xm.n is None else xm.n.astype(dt)
    wide = {"i": np.int64, "u": np.int64, "f": np.float64, "c": np.complex128}[dt.kind]
    obj = type(x)(s.astype(dt), None if n is None else n.astype(dt))
    check(obj.signal.dtype == dt, "narrow-dtype-not-kept", f"{obj.signal.dtype} for {dt} input")
    return obj, Model(xm.cls, xm.npol, s.astype(dt).astype(wide), None if n is None else n.astype(dt).astype(wide)), True


def do_binop(xobj, xm, op, d, live, what="binop", protect=True, inexact=False):
    """perform one operation, check everything the statement promises, return (result obj, Model)"""
    y, ys, yn = make_operand(d, xm.cls, xm.npol)
    g = Guard(protect)
    if d["kind"] == "obj":
        g.add_signal("y", y)
    elif isinstance(y, np.ndarray):
        g.add("y", y)
    live.append(g)
    refl = d["refl"]
    N = xm.N
    if d["rel"] == "diff":
        if op in "+-":
            raises(ValueError, apply_op, op, xobj, y, refl, tag="length-mismatch-accepted")
        for gg in live:
            gg.verify()
        return None, None
    if d["kind"] == "obj" and N == 1 and d["L"] != 1:
        return None, None
    r = lib(apply_op, op, xobj, y, refl)
    contract(r, xm.cls, xm.npol, N, f"{what} {op}")
    if op in "+-":
        rm = model_op(op, xm, np.atleast_1d(ys), yn, refl)
        same_model(r, rm, f"x {op} {d['kind']}", exact=not inexact, tol=1e-6)
        # total-field clause, stated on the totals
        ytot = ys if yn is None else ys + yn
        want = xm.total + ytot if op == "+" else ((ytot - xm.total) if refl else (xm.total - ytot))
        got = r.signal if r.noise is None else r.signal + r.noise
        # (rounding is relative to the size of the terms, not of their sum: signal and noise may cancel)
        with np.errstate(all="ignore"):
            mag = max([float(np.nanmax(np.abs(v_))) for v_ in (xm.s, xm.n, ys, yn) if v_ is not None and np.size(v_)] + [1.0])
        mag = mag if np.isfinite(mag) else 1.0
        check(np.allclose(got, np.broadcast_to(want, got.shape), rtol=1e-9, atol=1e-9 * mag, equal_nan=True), "total-field-mismatch", what)
    else:
        rm = Model(xm.cls, xm.npol, r.signal.copy(), None if r.noise is None else r.noise.copy())
    for gg in live:
        gg.verify()
        gg.no_alias([("result.signal", r.signal), ("result.noise", r.noise)])
    return r, rm


def e_binop(c):
    reset()
    x, xm = build(c["x"])
    x, xm, nw = narrow_x(c, x, xm)
    live = [Guard(c.get("protect", True))]
    live[0].add_signal("x", x)
    d = c["y"]
    try:
        do_binop(x, xm, c["op"], d, live, protect=c.get("protect", True), inexact=nw and c["narrow"] in ("float32", "complex64"))
    finally:
        for g in live:
            g.release()
    ynoise = d["kind"] == "obj" and d["spec"]["noise"] is not None
    xnoise = c["x"]["noise"] is not None
    nt = (xnoise != ynoise) or (d["rel"] == "one" and ynoise) or (d["refl"] and d["kind"] in ("list", "str", "bits", "tuple")) or \
         (d["kind"] == "obj" and d["spec"]["sig"]["dt"] != c["x"]["sig"]["dt"])
    return {"nontrivial": bool(nt), "classes": [c["x"]["cls"] + str(c["x"]["npol"]), c["op"], d["kind"], d["rel"], "refl" if d["refl"] else "fwd",
                                                 f"noise:{int(xnoise)}{int(ynoise)}", "narrow-" + c["narrow"] if nw else "wide",
                                                 "operands-write-protected" if c.get("protect", True) else "operands-writeable", "N>=2^17" if xm.N >= 2 ** 17 else "N<2^17"]}


# ==================================================================================================
# (c) slices and copy

sidx = st.one_of(st.none(), st.integers(-70, 70))
s_sl = st.one_of(st.fixed_dictionaries({"int": st.integers(-66, 66)}),
                 st.fixed_dictionaries({"start": sidx, "stop": sidx, "step": st.one_of(st.none(), st.integers(-5, 5).filter(lambda v: v != 0))}),
                 st.fixed_dictionaries({"start": st.one_of(st.none(), st.integers(-8, 8)), "stop": st.none(), "step": st.sampled_from([2, 3, -1, -2, -3, 5])}),
                 st.fixed_dictionaries({"copy": st.just(True)}),
                 st.fixed_dictionaries({"copy_n": st.integers(0, 80)}))
s_slice = st.fixed_dictionaries({"x": s_signal(lmax=64), "sl": s_sl})


def do_slice(x, xm, sl, live, what="slice"):
    if "int" in sl:
        i = sl["int"]
        if not -xm.N <= i < xm.N:
            raises(IndexError, lambda: x[i], tag="index-out-of-range-accepted")
            return None, None, "int-oob"
        want = Model(xm.cls, xm.npol, xm.s[..., i:i + 1 if i != -1 else None], None if xm.n is None else xm.n[..., i:i + 1 if i != -1 else None])
        r = lib(lambda: x[i])
        cls = "int"
    elif "copy" in sl:
        want = Model(xm.cls, xm.npol, xm.s, xm.n)
        r = lib(x.copy)
        cls = "copy"
    elif "copy_n" in sl:
        k = sl["copy_n"]
        s = slice(None, k)
        if xm.s[..., s].shape[-1] == 0:
            raises(ValueError, x.copy, k, tag="empty-copy-accepted")
            return None, None, "copy-empty"
        want = Model(xm.cls, xm.npol, xm.s[..., s], None if xm.n is None else xm.n[..., s])
        r = lib(x.copy, k)
        cls = "copy_n"
    else:
        s = slice(sl["start"], sl["stop"], sl["step"])
        if xm.s[..., s].shape[-1] == 0:
            raises(ValueError, lambda: x[s], tag="empty-slice-accepted")
            return None, None, "empty"
        want = Model(xm.cls, xm.npol, xm.s[..., s], None if xm.n is None else xm.n[..., s])
        r = lib(lambda: x[s])
        cls = "stepped" if sl["step"] not in (None, 1) else "plain"
    same_model(r, want, what)
    for g in live:
        g.verify()
        g.no_alias([("slice.signal", r.signal), ("slice.noise", r.noise)])
    return r, Model(xm.cls, xm.npol, want.s.copy(), None if want.n is None else want.n.copy()), cls


def e_slice(c):
    reset()
    x, xm = build(c["x"])
    g = Guard()
    g.add_signal("x", x)
    try:
        r, rm, cls = do_slice(x, xm, c["sl"], [g])
    finally:
        g.release()
    nt = r is not None and ((xm.npol == 2 and rm.N == 1) or xm.n is not None)
    return {"nontrivial": bool(nt), "classes": [c["x"]["cls"] + str(c["x"]["npol"]), cls, "noise" if xm.n is not None else "clean"]}


# ==================================================================================================
# (d) expression trees

@st.composite
def s_tree(draw, N=None, depth=None, cls=None, npol=None):
    top = False
    if cls is None:
        cls = draw(st.sampled_from(["E", "O", "O"]))
        npol = 1 if cls == "E" else draw(st.sampled_from([1, 2]))
        N = draw(st.sampled_from([1, 2, 3, 5, 8, 13]))
        depth = draw(st.integers(2, 6))
        top = True
    if depth <= 1:
        return {"t": "leaf", "spec": draw(s_signal(n=N, cls=cls, npol=npol, fams=["smallint", "unif", "const", "lead0"]))}
    kind = draw(st.sampled_from(["leaf", "bin", "bin", "binc", "binc", "slice", "copy", "tr"]))
    if kind == "leaf":
        return {"t": "leaf", "spec": draw(s_signal(n=N, cls=cls, npol=npol, fams=["smallint", "unif", "const", "lead0"]))}
    if kind == "bin":
        nb = N if draw(st.integers(0, 3)) else 1
        return {"t": "bin", "op": draw(st.sampled_from(["+", "-", "*", "+", "-"])), "a": draw(s_tree(N, depth - 1, cls, npol)),
                "b": draw(s_tree(nb, draw(st.integers(1, depth - 1)), cls, npol))}
    if kind == "binc":
        return {"t": "binc", "op": draw(st.sampled_from(["+", "-", "*", "+", "-"])), "a": draw(s_tree(N, depth - 1, cls, npol)),
                "y": draw(s_operand(N, cls, npol, allow_diff=False).filter(lambda d: d["kind"] != "obj"))}
    if kind == "slice":
        how = draw(st.sampled_from(["head", "tail", "even", "rev", "int", "copy_n"]))
        k = draw(st.integers(1, 4))
        if how == "head":
            return {"t": "slice", "a": draw(s_tree(N + k, depth - 1, cls, npol)), "sl": {"start": None, "stop": N, "step": None}}
        if how == "tail":
            return {"t": "slice", "a": draw(s_tree(N + k, depth - 1, cls, npol)), "sl": {"start": k, "stop": None, "step": None}}
        if how == "even":
            return {"t": "slice", "a": draw(s_tree(2 * N - draw(st.integers(0, 1)), depth - 1, cls, npol)), "sl": {"start": None, "stop": None, "step": 2}}
        if how == "rev":
            return {"t": "slice", "a": draw(s_tree(N, depth - 1, cls, npol)), "sl": {"start": None, "stop": None, "step": -1}}
        if how == "copy_n":
            return {"t": "slice", "a": draw(s_tree(N + k, depth - 1, cls, npol)), "sl": {"copy_n": N}}
        if N == 1:
            return {"t": "slice", "a": draw(s_tree(k + 1, depth - 1, cls, npol)), "sl": {"int": draw(st.integers(-k - 1, k))}}
        return {"t": "slice", "a": draw(s_tree(N, depth - 1, cls, npol)), "sl": {"copy": True}}
    if kind == "copy":
        return {"t": "slice", "a": draw(s_tree(N, depth - 1, cls, npol)), "sl": {"copy": True}}
    return {"t": "tr", "a": draw(s_tree(N, depth - 1, cls, npol)), "dom": draw(st.sampled_from(["w", "t", "f"])), "shift": draw(st.booleans())}


def t_depth(t):
    return 1 + max([t_depth(t[k]) for k in ("a", "b") if k in t] or [0])


def ev_tree(t, live, stats):
    k = t["t"]
    stats[k] = stats.get(k, 0) + 1
    if k == "leaf":
        obj, m = build(t["spec"])
        contract(obj, m.cls, m.npol, m.N, "leaf")
        g = Guard()
        g.add_signal("leaf", obj)
        live.append(g)
        return obj, m
    a, am = ev_tree(t["a"], live, stats)
    if k == "bin":
        b, bm = ev_tree(t["b"], live, stats)
        op = t["op"]
        r = lib(apply_op, op, a, b, False)
        contract(r, am.cls, am.npol, am.N, f"tree {op}")
        if op in "+-":
            rm = model_op(op, am, bm.s, bm.n, False)
            same_model(r, rm, f"tree node {op}")
        else:
            rm = Model(am.cls, am.npol, r.signal.copy(), None if r.noise is None else r.noise.copy())
        if am.n is None and bm.n is not None and bm.N == 1 and am.N > 1:
            stats["len1-noisy-operand"] = 1
    elif k == "binc":
        r, rm = do_binop(a, am, t["op"], t["y"], live, "tree")
        if r is None:
            return a, am
        if t["y"]["refl"]:
            stats["refl"] = 1
    elif k == "slice":
        r, rm, _ = do_slice(a, am, t["sl"], live, "tree slice")
        if r is None:
            return a, am
    elif k == "tr":
        r = lib(a, t["dom"], t["shift"])
        contract(r, am.cls, am.npol, am.N, "tree transform")
        check((r.noise is None) == (am.n is None), "noise-presence", "transform changed noise presence")
        rm = Model(am.cls, am.npol, r.signal.copy(), None if r.noise is None else r.noise.copy())
    else:
        raise ValueError(k)
    for g in live:
        g.verify()
        g.no_alias([("node.signal", r.signal), ("node.noise", r.noise)])
    g = Guard()
    g.add_signal(k, r)
    live.append(g)
    return r, rm


def _hugeify(t):
    """leaves of ~1e160: products overflow to inf and differences of those give NaN, in the library exactly as in the array-pair model"""
    if t["t"] == "leaf":
        for k in ("sig", "noise"):
            if t["spec"].get(k) and t["spec"][k].get("dt") != "i":
                t["spec"][k]["scale"] = 1e160
    for k in ("a", "b"):
        if k in t:
            _hugeify(t[k])


def e_tree(c):
    reset()
    if c.get("huge_values"):
        c = __import__("copy").deepcopy(c)
        _hugeify(c)
    live, stats = [], {}
    try:
        with np.errstate(all="ignore"):
            ev_tree(c, live, stats)
    finally:
        for g in live:
            g.release()
    d = t_depth(c)
    return {"nontrivial": d >= 3, "classes": [f"depth{d}", "values~1e160" if c.get("huge_values") else "ordinary-values", f"nodes{min(sum(v for k, v in stats.items() if k in ('leaf', 'bin', 'binc', 'slice', 'tr')), 12)}"]
            + [k for k in ("len1-noisy-operand", "refl", "tr") if k in stats]}


PARTS = [
    Part("ctor", e_ctor, s_ctor(), quick=800, thorough=15000, shards=8, rule="non-trivial: noise given and (scalar/2-D input or n_pol=2)"),
    Part("ctor_bad", e_bad, s_bad, quick=150, thorough=1800, shards=2, rule="rejected shapes"),
    Part("binop", e_binop, s_binop(), quick=2500, thorough=36000, shards=16, quick_shards=2, rule="non-trivial: noise on exactly one side, length-1 noisy operand, reflected list/str, mixed dtypes"),
    Part("binop_huge", e_binop, s_binop(force_huge=True), quick=20, thorough=120, shards=16, quick_shards=4, shrink=False,
         rule="every case: 2^17 .. 2^18 samples, operand objects of the same dtype half of the time, writeable operands half of the time"),
    Part("slices", e_slice, s_slice, quick=1200, thorough=24000, shards=8, rule="non-trivial: noisy operand or 2-pol slice down to length 1"),
    Part("trees", e_tree, st.tuples(s_tree(), st.integers(1, 2 ** 30)).map(lambda tv: dict(tv[0], huge_values=(tv[1] % 6 == 3))), quick=900, thorough=18000, shards=16, quick_shards=2, rule="non-trivial: depth >= 3"),
]
