"""C17 - the eye estimator recovers the levels of a clean two-level signal in any unit."""
import numpy as np
from hypothesis import strategies as st

from ..core import check, lib, Guard
from ..lib import reset, gv, D, electrical_signal
from ..runner import Part

RULE = ("two-level NRZ waveforms (random / PRBS7 / PRBS9 patterns, 64..512 slots, sps in {8,16,32}, sps_resamp=128) with level distance d over 1e-3..1e2 V, "
        "offsets a/d in {0, U(-1,1), U(-10,10), U(-1e3,1e3), U(-1e6,1e6)}, Bessel band-limiting at 0.75..1.5 R, white Gaussian noise sigma in 0.5%..5% of d, and a metamorphic twin "
        "alpha*y+beta (alpha in 1e-3..1e3) under the same numpy seed; oracle: the statement's validity predicate and the equivariance relation; "
        "non-trivial: d outside [0.1, 2] V or |a| > d")
ASSUMPTIONS = [
    "thresholds are the statement's own: levels within 8% of d, s0/s1 in [sigma/2, 2 sigma + 3% d], crossings 1 +- 0.1 slots apart, t_opt midway within 2/128",
    "equivariance tolerances: means 1% of alpha*d, sigmas 10% relative, timing outputs within one resampled sample (1/128 slot)",
    "noise is added after the band-limiting filter so that its standard deviation is the stated sigma",
    "'mild band-limiting' = zero-phase 4th-order Bessel at >= 0.75 R: inter-symbol interference at the slot centre stays below 1.5% of b-a (at 0.6 R it is "
    "4%, which alone exceeds the statement's 3% allowance for s0/s1)",
]


@st.composite
def s_case(draw):
    c = draw(s_case0())
    if draw(st.integers(0, 7)) == 0:
        # the corner of the stated domain: the smallest eye (1e-3 V) in the smallest unit (alpha = 1e-3), levels on round numbers of both units
        # (dark level 0 or a whole multiple of d, beta 0 or whole): an eye of ~1e-6 V - anything absolute (decimals, epsilons) shows here
        c.update(logd=draw(st.sampled_from([-3.0, -3.0, -2.5])), loga=draw(st.sampled_from([-3.0, -3.0, -2.75])), off=float(draw(st.integers(0, 2))),
                 beta=float(draw(st.sampled_from([0, 0, 1, -1, 5]))), corner=True)
    return c


@st.composite
def s_case0(draw):
    return {"pattern": draw(st.sampled_from(["random", "random", "prbs7", "prbs9"])), "nslots": draw(st.sampled_from([64, 96, 128, 200, 256, 512])),
            "sps": draw(st.sampled_from([8, 16, 32])), "logd": draw(st.one_of(st.floats(-3, 2), st.sampled_from([-3.0, -2.0, -1.0, 0.0, 0.5, 1.0, 1.5, 2.0]))),
            "off": draw(st.one_of(st.just(0.0), st.floats(-1, 1), st.floats(-10, 10), st.floats(-10, 10), st.floats(-1e3, 1e3), st.floats(-1e6, 1e6))), "bw": draw(st.floats(0.75, 1.5)), "sig": draw(st.floats(0.005, 0.05)),
            "loga": draw(st.floats(-3, 3)), "beta": draw(st.one_of(st.floats(-10, 10), st.floats(-10, 10), st.floats(-1e3, 1e3), st.floats(-1e6, 1e6))),
            "prior": draw(st.sampled_from([None, None, 32, 64])), "seed": draw(st.integers(0, 2 ** 31 - 1)), "p1": draw(st.floats(0.35, 0.65)),
            "form": draw(st.sampled_from(["es", "es_noise", "array", "array", "complex"])), "resamp_np": draw(st.booleans())}


def make_wave(c):
    rs = np.random.RandomState(c["seed"])
    n, sps = c["nslots"], c["sps"]
    if c["pattern"] == "random":
        bits = (rs.uniform(size=n) < c["p1"]).astype(int)
        if bits.min() == bits.max():
            bits[0] = 1 - bits[0]
    else:
        order = 7 if c["pattern"] == "prbs7" else 9
        seq = D.PRBS(order, len=n, seed=int(rs.randint(1, 2 ** order))).data
        bits = np.asarray(seq, dtype=int)
    d = 10 ** c["logd"]
    a = c["off"] * d
    clean = a + d * np.kron(bits, np.ones(sps))
    filt = D.LPF(clean, c["bw"] * gv.R).signal
    noise = rs.normal(0, c["sig"] * d, filt.size)
    return bits, a, d, filt, noise


def get_eye(arg, seed, resamp=128):
    np.random.seed(seed % 2 ** 32)
    return lib(D.GET_EYE, arg, 4096, resamp)


FIELDS = ("mu0", "mu1", "s0", "s1", "threshold", "t_left", "t_right", "t_opt")


def e_case(c):
    reset()
    sps = c["sps"]
    gv(sps=sps, R=1e9)
    bits, a, d, filt, noise = make_wave(c)
    b = a + d
    sigma = c["sig"] * d
    total = filt + noise
    # sps_resamp = 128 as a Python int or as the numpy integer an array of settings yields
    resamp = np.int64(128) if c.get("resamp_np") else 128
    if c["form"] == "es":
        arg = electrical_signal(total.copy())
    elif c["form"] == "es_noise":
        arg = electrical_signal(filt.copy(), noise.copy())
    elif c["form"] == "complex":
        # a real waveform that went through an FFT round trip and was not reduced with .real: complex dtype, imaginary part = rounding residue
        arg = np.fft.ifft(np.fft.fft(total))
    else:
        arg = total.copy()
    g = Guard()
    if isinstance(arg, electrical_signal):
        g.add_signal("x", arg)
    else:
        g.add("x", arg)
    prior = "-"
    if c.get("prior") and c["prior"] != sps:
        # an earlier analysis in the same process: a record with the SAME number of samples as the resampled one below (nslots*128) but
        # another slot width, analysed without resampling
        sp0 = c["prior"]
        gv(sps=sp0, R=1e9)
        rs0 = np.random.RandomState(c["seed"] ^ 0xABCD)
        w0 = 0.3 + 1.7 * np.kron(rs0.randint(0, 2, c["nslots"] * 128 // sp0), np.ones(sp0)) + rs0.normal(0, 0.03, c["nslots"] * 128)
        np.random.seed(1)
        lib(D.GET_EYE, w0)
        gv(sps=sps, R=1e9)
        prior = f"prior-record-same-size-sps{sp0}"
    e = get_eye(arg, c["seed"], resamp)
    g.verify()
    g.release()
    ctx = f"d={d:.4g} V a={a:.4g} sps={sps} slots={c['nslots']} sigma={c['sig'] * 100:.1f}% bw={c['bw']:.2f}R"
    vals = {}
    for k in FIELDS:
        v = getattr(e, k, None)
        check(v is not None and np.isfinite(v), "eye-field-not-finite", f"{k}={v} ({ctx})")
        vals[k] = float(v)
    check(abs(vals["mu0"] - a) <= 0.08 * d, "mu0-off", f"mu0={vals['mu0']:.5g} vs a={a:.5g} ({ctx})")
    check(abs(vals["mu1"] - b) <= 0.08 * d, "mu1-off", f"mu1={vals['mu1']:.5g} vs b={b:.5g} ({ctx})")
    # s0/s1 are sample standard deviations over the samples of ONE level inside the +-5 % window of every other slot: about nslots/4
    # independent noise samples. The statement's lower limit sigma/2 is a ~3-sigma event for a 16-sample estimate (64 slots), so it is
    # applied as stated only where missing it would be a six-sigma event, and scaled down (to 0 for the shortest records) otherwise.
    neff = c["nslots"] / 4
    lower = sigma * max(0.0, min(0.5, 1 - 6 / np.sqrt(2 * neff)))
    for k in ("s0", "s1"):
        check(lower <= vals[k] <= 2 * sigma + 0.03 * d, f"{k}-out-of-band", f"{k}={vals[k]:.4g} sigma={sigma:.4g} lower limit {lower:.4g} ({ctx})")
    check(vals["mu0"] < vals["threshold"] < vals["mu1"], "threshold-not-between-levels", f"{vals['mu0']} {vals['threshold']} {vals['mu1']} ({ctx})")
    check(abs(vals["t_right"] - vals["t_left"] - 1) <= 0.1, "crossings-not-one-slot-apart", f"t_left={vals['t_left']:.4f} t_right={vals['t_right']:.4f} ({ctx})")
    check(abs(vals["t_opt"] - (vals["t_left"] + vals["t_right"]) / 2) <= 2 / 128 + 1e-12, "t_opt-not-midway", f"{vals} ({ctx})")
    i = e.i
    check(isinstance(i, (int, np.integer)) and 0 <= int(i) < sps, "sampling-index-out-of-range", f"i={i!r} sps={sps} ({ctx})")
    # change of units under the same numpy seed
    al, be = 10 ** c["loga"], c["beta"] * d * 10 ** c["loga"]
    if c["form"] == "es_noise":
        arg2 = electrical_signal(al * filt + be, al * noise)
    elif c["form"] == "es":
        arg2 = electrical_signal(al * total + be)
    elif c["form"] == "complex":
        arg2 = np.fft.ifft(np.fft.fft(al * total + be))
    else:
        arg2 = al * total + be
    e2 = get_eye(arg2, c["seed"], resamp)
    for k in FIELDS:
        v = getattr(e2, k, None)
        check(v is not None and np.isfinite(v), "eye-field-not-finite", f"scaled: {k}={v} (alpha={al:.3g} beta={be:.3g}; {ctx})")
    for k in ("mu0", "mu1"):
        check(abs(float(getattr(e2, k)) - (al * vals[k] + be)) <= 0.01 * al * d, "levels-not-equivariant", f"{k}: {getattr(e2, k):.6g} vs {al * vals[k] + be:.6g} (alpha={al:.3g}; {ctx})")
    for k in ("s0", "s1"):
        check(abs(float(getattr(e2, k)) - al * vals[k]) <= 0.10 * al * vals[k], "sigmas-not-equivariant", f"{k}: {getattr(e2, k):.4g} vs {al * vals[k]:.4g} (alpha={al:.3g}; {ctx})")
    for k in ("t_left", "t_right", "t_opt"):
        check(abs(float(getattr(e2, k)) - vals[k]) <= 1 / 128 + 1e-12, "timing-not-invariant", f"{k}: {getattr(e2, k)} vs {vals[k]} (alpha={al:.3g}; {ctx})")
    check(abs(int(e2.i) - int(i)) <= 1, "timing-not-invariant", f"i: {e2.i} vs {i}")
    nt = not (0.1 <= d <= 2) or abs(a) > d
    return {"nontrivial": bool(nt), "classes": [c["pattern"], f"sps{sps}", "d<0.1" if d < 0.1 else "d<=2" if d <= 2 else "d<=10" if d <= 10 else "d>10",
                                                 "offset>1000d" if abs(a) > 1000 * d else "offset>d" if abs(a) > d else "offset<=d", c["form"], prior,
                                                 "beta>1000d" if abs(c["beta"]) > 1000 else "beta<=1000d",
                                                 "sps_resamp:np.int64" if c.get("resamp_np") else "sps_resamp:int",
                                                 "corner:1uV-eye" if c.get("corner") else "no-corner"]}


def classify(part, case, v):
    return None


PARTS = [Part("eye", e_case, s_case(), quick=120, thorough=3600, shards=16, quick_shards=8, shrink=False, rule="see RULE")]
