"""C15 - binary_sequence is a closed, immutable-by-operation algebra over {0,1}."""
import itertools

import numpy as np
from hypothesis import strategies as st

from ..core import check, lib, raises, Guard, Violation
from ..lib import binary_sequence, electrical_signal
from ..runner import Part
from ..textoracle import run_campaign, eval_text

RULE = ("bit strings (exhaustive up to length 12, pairs up to 5+5), container forms, slices and expression trees over {+,~,slice} "
        "evaluated against a Python-list model; threshold comparisons against numpy; distinct = sha1 of the case")
ASSUMPTIONS = [
    "reflected concatenation is exercised with str/list/tuple on the left (an ndarray on the left dispatches to numpy's own operator)",
    "an empty selection may be returned as an empty valid sequence or rejected; both are accepted",
]


def valid(obj, what="result"):
    check(type(obj) is binary_sequence, "not-a-binary_sequence", f"{what} is {type(obj).__name__}")
    d = obj.data
    check(isinstance(d, np.ndarray) and d.ndim == 1 and d.dtype == np.uint8, "data-not-1d-uint8",
          f"{what}.data dtype={getattr(d, 'dtype', None)} shape={getattr(d, 'shape', None)}")
    check(bool(np.all((d == 0) | (d == 1))), "data-not-binary", f"{what}.data={d[:20]}")
    check(len(obj) == d.size == obj.len(), "len-mismatch", what)
    check(int(obj.ones()) + int(obj.zeros()) == len(obj), "ones+zeros!=len", what)
    check(int(obj.ones()) == int(d.sum()), "ones-wrong", what)


def same(obj, model, what):
    valid(obj, what)
    check(obj.data.tolist() == list(model), "value-mismatch", f"{what}: got {obj.data.tolist()[:40]} want {list(model)[:40]}")


def container(bits, form):
    b = [int(x) for x in bits]
    if form == "str":
        return "".join(map(str, b))
    if form == "str_sp":
        return " ".join(map(str, b))
    if form == "str_comma":
        return ",".join(map(str, b))
    if form == "list":
        return list(b)
    if form == "tuple":
        return tuple(b)
    if form == "arr_int":
        return np.array(b, dtype=np.int64)
    if form == "arr_bool":
        return np.array(b, dtype=bool)
    if form == "arr_float":
        return np.array(b, dtype=float)
    if form == "arr_u8":
        return np.array(b, dtype=np.uint8)
    if form == "bs":
        return binary_sequence(np.array(b, dtype=np.uint8))
    if form == "listbool":
        return [bool(x) for x in b]
    raise ValueError(form)


FORMS = ["str", "str_sp", "str_comma", "list", "tuple", "arr_int", "arr_bool", "arr_float", "arr_u8", "listbool"]
RIGHT = ["bs", "str", "str_sp", "list", "tuple", "arr_int", "arr_bool", "arr_u8"]
LEFT = ["str", "str_comma", "list", "tuple"]

# --------------------------------------------------------------------------------------------------
# exhaustive construction


def enum_words(tier, shard, nshards):
    L = 12
    for n in range(0, L + 1):
        yield {"n": n}


def e_words(c):
    n = c["n"]
    count = 0
    for bits in itertools.product((0, 1), repeat=n):
        for form in FORMS:
            if n == 0 and form.startswith("str"):
                continue
            g = Guard()
            arg = container(bits, form)
            g.add("arg", arg if isinstance(arg, np.ndarray) else None)
            if n == 0:
                try:
                    a = binary_sequence(arg)
                except ValueError:
                    continue
            else:
                a = lib(binary_sequence, arg)
            same(a, bits, f"binary_sequence({arg!r})")
            g.verify()
            g.no_alias([("data", a.data)])
            g.release()
            count += 1
        if n == 1:
            for sc in (bits[0], bool(bits[0]), np.uint8(bits[0]), float(bits[0]), np.int64(bits[0]), np.bool_(bits[0])):
                same(lib(binary_sequence, sc), bits, f"binary_sequence({sc!r})")
                count += 1
        if n >= 1:
            a = binary_sequence(list(bits))
            g = Guard()
            g.add_bits("a", a)
            inv = lib(lambda: ~a)
            same(inv, [1 - b for b in bits], "~a")
            same(lib(lambda: ~inv), bits, "~~a")
            check(int(inv.ones()) == int(a.zeros()), "ones(~a)!=zeros(a)", str(bits))
            g.verify()
            g.no_alias([("~a", inv.data)])
            g.release()
    return {"nontrivial": n >= 2, "weight": max(1, count), "classes": [f"len{n}"]}


def enum_pairs(tier, shard, nshards):
    for na in range(0, 6):
        for nb in range(0, 6):
            yield {"na": na, "nb": nb}


def e_pairs(c):
    na, nb = c["na"], c["nb"]
    count = 0
    for A in itertools.product((0, 1), repeat=na):
        a = binary_sequence(np.array(A, dtype=np.uint8))
        for B in itertools.product((0, 1), repeat=nb):
            for form in RIGHT:
                if nb == 0 and form.startswith("str"):
                    continue
                b = container(B, form)
                g = Guard()
                g.add_bits("a", a)
                if form == "bs":
                    g.add_bits("b", b)
                elif isinstance(b, np.ndarray):
                    g.add("b", b)
                r = lib(lambda: a + b)
                same(r, list(A) + list(B), f"{list(A)} + {form}{list(B)}")
                check(len(r) == len(a) + nb, "len(a+b)!=len(a)+len(b)", "")
                if na:
                    same(lib(lambda: r[:na]), A, "(a+b)[:len(a)]")
                if nb and na:
                    same(lib(lambda: r[na:]), B, "(a+b)[len(a):]")
                g.verify()
                g.no_alias([("a+b", r.data)])
                g.release()
                count += 1
            for form in LEFT:
                if nb == 0 and form.startswith("str"):
                    continue
                b = container(B, form)
                g = Guard()
                g.add_bits("a", a)
                r = lib(lambda: b + a)
                same(r, list(B) + list(A), f"{form}{list(B)} + {list(A)}")
                g.verify()
                g.no_alias([("b+a", r.data)])
                g.release()
                count += 1
    return {"nontrivial": na >= 1 and nb >= 1, "weight": count, "classes": [f"{na}+{nb}"]}


# --------------------------------------------------------------------------------------------------
# slices on long words

bits_long = st.one_of(st.lists(st.integers(0, 1), min_size=1, max_size=40),
                      st.tuples(st.integers(0, 2 ** 31), st.integers(1, 3000)).map(lambda t: {"seed": t[0], "n": t[1]}))


def mkbits(spec):
    if isinstance(spec, dict):
        return np.random.RandomState(spec["seed"]).randint(0, 2, spec["n"]).tolist()
    return list(spec)


idx = st.one_of(st.none(), st.integers(-50, 50), st.integers(-4000, 4000))
s_slice = st.fixed_dictionaries({"bits": bits_long,
                                 "sl": st.one_of(st.fixed_dictionaries({"int": st.integers(-45, 45)}),
                                                 st.fixed_dictionaries({"start": idx, "stop": idx, "step": st.one_of(st.none(), st.integers(-7, 7).filter(lambda v: v != 0))}))})


def e_slice(c):
    bits = mkbits(c["bits"])
    a = binary_sequence(np.array(bits, dtype=np.uint8))
    g = Guard()
    g.add_bits("a", a)
    sl = c["sl"]
    if "int" in sl:
        i = sl["int"]
        try:
            want = [bits[i]]
        except IndexError:
            raises(IndexError, lambda: a[i], tag="index-out-of-range-accepted")
            return {"nontrivial": False, "classes": ["int-oob"]}
        r = lib(lambda: a[i])
        cls = "int"
    else:
        s = slice(sl["start"], sl["stop"], sl["step"])
        want = bits[s]
        if not want:
            try:
                r = a[s]
            except ValueError:
                return {"nontrivial": False, "classes": ["empty-rejected"]}
            same(r, [], "empty slice")
            return {"nontrivial": False, "classes": ["empty"]}
        r = lib(lambda: a[s])
        cls = "stepped" if sl["step"] not in (None, 1) else "plain"
    same(r, want, f"a[{sl}]")
    g.verify()
    g.no_alias([("slice", r.data)])
    g.release()
    return {"nontrivial": len(bits) > 2, "classes": [cls, "long" if len(bits) > 100 else "short"]}


# --------------------------------------------------------------------------------------------------
# expression trees

leaf = st.fixed_dictionaries({"op": st.just("leaf"), "bits": st.lists(st.integers(0, 1), min_size=1, max_size=9),
                              "form": st.sampled_from(FORMS + ["bs"])})
raw_r = st.fixed_dictionaries({"bits": st.lists(st.integers(0, 1), min_size=1, max_size=6), "form": st.sampled_from(RIGHT[1:])})
raw_l = st.fixed_dictionaries({"bits": st.lists(st.integers(0, 1), min_size=1, max_size=6), "form": st.sampled_from(LEFT)})


def extend(ch):
    sidx = st.one_of(st.none(), st.integers(-12, 12))
    return st.one_of(
        st.fixed_dictionaries({"op": st.just("inv"), "a": ch}),
        st.fixed_dictionaries({"op": st.just("inv"), "a": st.fixed_dictionaries({"op": st.just("cat"), "a": ch, "b": ch})}),
        st.fixed_dictionaries({"op": st.just("cat"), "a": ch, "b": ch}),
        st.fixed_dictionaries({"op": st.just("cat"), "a": st.fixed_dictionaries({"op": st.just("cat_l"), "a": ch, "raw": raw_l}), "b": ch}),
        st.fixed_dictionaries({"op": st.just("cat_r"), "a": ch, "raw": raw_r}),
        st.fixed_dictionaries({"op": st.just("cat_l"), "a": ch, "raw": raw_l}),
        st.fixed_dictionaries({"op": st.just("slice"), "a": ch, "start": sidx, "stop": sidx,
                               "step": st.one_of(st.none(), st.sampled_from([1, 2, 3, -1, -2]))}),
        st.fixed_dictionaries({"op": st.just("idx"), "a": ch, "i": st.integers(0, 30)}),
    )


s_tree = st.recursive(leaf, extend, max_leaves=24)


def depth(t):
    return 1 + max([depth(t[k]) for k in ("a", "b") if k in t and isinstance(t[k], dict) and "op" in t[k]] or [0])


def count_ops(t, acc):
    acc[t["op"]] = acc.get(t["op"], 0) + 1
    for k in ("a", "b"):
        if k in t and isinstance(t[k], dict) and "op" in t[k]:
            count_ops(t[k], acc)
    return acc


class Skip(Exception):
    pass


def ev(t, live):
    """returns (object, model list); `live` collects (Guard) of every operand still referenced"""
    op = t["op"]
    if op == "leaf":
        arg = container(t["bits"], t["form"])
        obj = arg if t["form"] == "bs" else lib(binary_sequence, arg)
        same(obj, t["bits"], "leaf")
        g = Guard()
        g.add_bits("leaf", obj)
        live.append(g)
        return obj, list(t["bits"])
    a, ma = ev(t["a"], live)
    if op == "inv":
        r, m = lib(lambda: ~a), [1 - x for x in ma]
    elif op == "cat":
        b, mb = ev(t["b"], live)
        r, m = lib(lambda: a + b), ma + mb
    elif op == "cat_r":
        b = container(t["raw"]["bits"], t["raw"]["form"])
        r, m = lib(lambda: a + b), ma + list(t["raw"]["bits"])
    elif op == "cat_l":
        b = container(t["raw"]["bits"], t["raw"]["form"])
        r, m = lib(lambda: b + a), list(t["raw"]["bits"]) + ma
    elif op == "slice":
        s = slice(t["start"], t["stop"], t["step"])
        m = ma[s]
        if not m:
            raise Skip()
        r = lib(lambda: a[s])
    elif op == "idx":
        i = t["i"] % len(ma)
        r, m = lib(lambda: a[i]), [ma[i]]
    else:
        raise ValueError(op)
    same(r, m, f"node {op}")
    for g in live:
        g.verify()
        g.no_alias([(op, r.data)])
    g = Guard()
    g.add_bits(op, r)
    live.append(g)
    return r, m


def e_tree(c):
    live = []
    try:
        ev(c, live)
    except Skip:
        return {"nontrivial": False, "classes": ["empty-slice-skipped"]}
    finally:
        for g in live:
            g.release()
    ops = count_ops(c, {})
    cats = ops.get("cat", 0) + ops.get("cat_r", 0) + ops.get("cat_l", 0)
    d = depth(c)
    return {"nontrivial": cats >= 2 and ops.get("inv", 0) >= 1, "classes": [f"depth{min(d, 7)}", f"cats{min(cats, 4)}"]}


# --------------------------------------------------------------------------------------------------
# rejected constructions / operands

s_reject = st.fixed_dictionaries({
    "bits": st.lists(st.integers(0, 1), min_size=1, max_size=8),
    "pos": st.integers(0, 7),
    "bad": st.sampled_from([2, -1, 0.5, 3, 255, 256, 1.5, -0.0001, 1.0000001, 1e9]),
    "form": st.sampled_from(["list", "tuple", "arr", "str"]),
    "what": st.sampled_from(["element", "2d", "none", "text", "add_scalar", "add_none", "add_bad_elem", "add_2d", "radd_bad", "add_text", "strdigit", "huge_tail", "masked"]),
    "text": st.sampled_from(["abc", "0 1 x", "01a", "0.5", "1e0", "two", "0b1", "[0,1]", "1;0x"]),
})


def e_reject(c):
    bits = list(c["bits"])
    a = binary_sequence(bits)
    g = Guard()
    g.add_bits("a", a)
    w = c["what"]
    if w == "element":
        v = list(bits)
        v[c["pos"] % len(v)] = c["bad"]
        arg = {"list": v, "tuple": tuple(v), "arr": np.array(v), "str": None}[c["form"]]
        if arg is None:
            iv = [abs(int(x)) if float(x).is_integer() else 7 for x in v]
            iv = [x if set(str(x)) - {"0", "1"} else (x if x in (0, 1) else 2) for x in iv]   # "1000" would itself be a valid bit string
            if all(x in (0, 1) for x in iv):
                iv[0] = 2
            arg = " ".join(str(x) for x in iv)
        raises((ValueError, TypeError), binary_sequence, arg, tag="non-binary-element-accepted")
    elif w == "strdigit":
        raises((ValueError, TypeError), binary_sequence, "".join(map(str, bits)) + "2", tag="non-binary-element-accepted")
    elif w == "2d":
        for arg in ([bits, bits], np.array([bits, bits]), [[b] for b in bits], np.zeros((2, 2, 2), dtype=int)):
            raises((ValueError, TypeError), binary_sequence, arg, tag="2d-data-accepted")
    elif w == "none":
        raises((ValueError, TypeError), binary_sequence, None, tag="None-accepted")
        raises((ValueError, TypeError), binary_sequence, [0, None, 1], tag="None-accepted")
    elif w == "text":
        raises((ValueError, TypeError), binary_sequence, c["text"], tag="bad-text-accepted")
    elif w == "add_scalar":
        for other in (3, 1, 0, 2.5, True):
            raises(TypeError, lambda: a + other, tag="add-scalar-accepted")
            raises(TypeError, lambda: other + a, tag="radd-scalar-accepted")
    elif w == "add_none":
        raises(TypeError, lambda: a + None, tag="add-None-accepted")
        raises(TypeError, lambda: a + {"0": 1}, tag="add-dict-accepted")
    elif w == "add_bad_elem":
        v = list(bits)
        v[c["pos"] % len(v)] = c["bad"]
        for other in (v, tuple(v), np.array(v)):
            raises(ValueError, lambda: a + other, tag="add-non-binary-accepted")
    elif w == "radd_bad":
        v = list(bits)
        v[c["pos"] % len(v)] = c["bad"]
        for other in (v, tuple(v)):
            raises(ValueError, lambda: other + a, tag="radd-non-binary-accepted")
    elif w == "add_2d":
        raises(ValueError, lambda: a + [bits, bits], tag="add-2d-accepted")
        raises(ValueError, lambda: a + np.array([bits, bits]), tag="add-2d-accepted")
        raises(ValueError, lambda: [bits, bits] + a, tag="radd-2d-accepted")
    elif w == "huge_tail":
        # a very long record whose only invalid element sits near its end (or anywhere), as ndarray of several dtypes
        n = [2 ** 20 + 1, 2 ** 20 + 4097, 3 * 2 ** 19 + 5, 2 ** 21 + 3, 300001][c["pos"] % 5]
        bad = c["bad"] if float(c["bad"]).is_integer() and 0 <= c["bad"] <= 255 else 2
        for dt in (np.uint8, np.int64, float):
            v = np.zeros(n, dtype=dt)
            v[1::3] = 1
            v[[n - 1, n - 2 - c["pos"], n // 2][len(bits) % 3]] = bad
            raises((ValueError, TypeError), binary_sequence, v, tag="non-binary-element-accepted")
            if dt is np.uint8:
                raises(ValueError, lambda: a + v, tag="add-non-binary-accepted")
                v[v == bad] = 1
                ok = lib(binary_sequence, v)
                valid(ok, "huge record")
                check(len(ok) == n and np.array_equal(ok.data, v), "huge-record-altered", "")
    elif w == "masked":
        # numpy masked arrays: an invalid value hidden under the mask is still invalid data; valid data comes out as a plain uint8 ndarray
        v = list(bits) + [1]
        bad_at = c["pos"] % len(v)
        vv = list(v)
        vv[bad_at] = c["bad"] if c["bad"] not in (0, 1) else 5
        mask = [i == bad_at for i in range(len(v))]
        raises((ValueError, TypeError), binary_sequence, np.ma.array(vv, mask=mask), tag="non-binary-element-accepted")
        raises((ValueError, TypeError), lambda: a + np.ma.array(vv, mask=mask), tag="add-non-binary-accepted")
        ok = lib(binary_sequence, np.ma.array(v, mask=mask))
        valid(ok, "binary_sequence(masked array of valid bits)")
        check(type(ok.data) is np.ndarray and ok.data.tolist() == v, "masked-input-altered", f"{type(ok.data).__name__} {ok.data.tolist()} vs {v}")
        check(int(lib(ok.ones)) + int(lib(ok.zeros)) == len(v) and int(lib((~ok).ones)) == int(lib(ok.zeros)), "ones/zeros-inconsistent", "masked input")
    elif w == "add_text":
        raises((ValueError, TypeError), lambda: a + c["text"], tag="add-bad-text-accepted")
        raises((ValueError, TypeError), lambda: c["text"] + a, tag="radd-bad-text-accepted")
    g.verify()
    g.release()
    return {"nontrivial": True, "classes": [w]}


# --------------------------------------------------------------------------------------------------
# threshold comparison  electrical_signal > thr , < thr

LEVELS = np.array([0.1, 0.3, 0.7, 1.1, 0.2, 2.3])


@st.composite
def s_cmp(draw):
    n = draw(st.integers(1, 40))
    return {
        "n": n, "seed": draw(st.integers(0, 2 ** 31)),
        "dtype": draw(st.sampled_from(["nonneg_real", "nonneg_int", "real", "complex", "nonneg_f32", "nonneg_f16", "nonneg_bigint"])),
        "noise": draw(st.booleans()),
        "thr_form": draw(st.sampled_from(["py_float", "py_int", "np_float", "list", "array", "es", "es_noise", "len1_list", "len1_array", "tuple"])),
        "thr_len": draw(st.sampled_from(["match", "match", "match", "mismatch"])),
        "quant": draw(st.booleans()),
    }


def e_cmp(c):
    rs = np.random.RandomState(c["seed"])
    n = c["n"]
    q = (lambda v: np.round(v * 4) / 4) if c["quant"] else (lambda v: v)  # quantised -> exact ties with the threshold
    if c["dtype"] == "nonneg_real":
        s = q(rs.uniform(0, 4, n))
        nz = q(rs.uniform(0, 1, n)) if c["noise"] else None
    elif c["dtype"] == "nonneg_int":
        s = rs.randint(0, 6, n)
        nz = rs.randint(0, 3, n) if c["noise"] else None
    elif c["dtype"] == "nonneg_bigint":
        # 64-bit integer samples beyond 2^53 (neighbouring integers that float64 cannot tell apart); thresholds are Python ints / int arrays
        s = (2 ** 53 + rs.randint(-3, 4, n)).astype(np.int64)
        nz = rs.randint(0, 3, n).astype(np.int64) if c["noise"] else None
    elif c["dtype"] in ("nonneg_f32", "nonneg_f16"):
        # narrow float samples sitting on decimal levels (0.1, 0.3, ...) that the narrow type cannot represent exactly; thresholds from the same decimals
        nd = np.float32 if c["dtype"] == "nonneg_f32" else np.float16
        s = rs.choice(LEVELS, n).astype(nd)
        nz = (rs.randint(0, 3, n) / 4).astype(nd) if c["noise"] else None
    elif c["dtype"] == "real":
        s = q(rs.uniform(-4, 4, n))
        nz = q(rs.uniform(-1, 1, n)) if c["noise"] else None
    else:
        s = q(rs.uniform(-4, 4, n)) + 1j * q(rs.uniform(-4, 4, n))
        nz = (q(rs.uniform(-1, 1, n)) + 1j * q(rs.uniform(-1, 1, n))) if c["noise"] else None
    x = electrical_signal(s, nz)
    total = s + (nz if nz is not None else 0)
    form = c["thr_form"]
    scalar = form in ("py_float", "py_int", "np_float", "len1_list", "len1_array")
    m = n if c["thr_len"] == "match" or n == 1 else (n + 1 + rs.randint(0, 3) if rs.randint(0, 2) or n <= 2 else n - 1)
    if m == 1 and not scalar:
        m = n
    tv = q(rs.uniform(0, 4, 1 if scalar else m))
    if c["dtype"] in ("nonneg_f32", "nonneg_f16"):
        tv = rs.choice(LEVELS, tv.size) + (rs.randint(0, 3, tv.size) / 4 if c["noise"] else 0)
    if c["dtype"] == "nonneg_bigint":
        tv = (2 ** 53 + rs.randint(-3, 4, tv.size)).astype(np.int64)
        form = {"py_float": "py_int", "np_float": "py_int", "es_noise": "es"}.get(form, form)
    elif form == "py_int":
        tv = np.array([float(rs.randint(0, 5))])
    tn = None
    if form == "py_float":
        thr = float(tv[0])
    elif form == "py_int":
        thr = int(tv[0])
    elif form == "np_float":
        thr = np.float64(tv[0])
    elif form in ("list", "len1_list"):
        thr = tv.tolist()
    elif form == "tuple":
        thr = tuple(tv.tolist())
    elif form in ("array", "len1_array"):
        thr = tv.copy()
    elif form == "es":
        thr = electrical_signal(tv)
    else:
        tn = q(rs.uniform(0, 1, tv.size))
        thr = electrical_signal(tv, tn)
    ttot = tv + (tn if tn is not None else 0)
    g = Guard()
    g.add_signal("x", x)
    if isinstance(thr, electrical_signal):
        g.add_signal("thr", thr)
    elif isinstance(thr, np.ndarray):
        g.add("thr", thr)
    mismatch = (not scalar) and m != n
    if mismatch:
        raises(ValueError, lambda: x > thr, tag="gt-length-mismatch-accepted")
        raises(ValueError, lambda: x < thr, tag="lt-length-mismatch-accepted")
        g.verify()
        g.release()
        return {"nontrivial": True, "classes": ["mismatch", form]}
    gt = lib(lambda: x > thr)
    lt = lib(lambda: x < thr)
    valid(gt, "x > thr")
    valid(lt, "x < thr")
    check(len(gt) == n and len(lt) == n, "comparison-length", f"len {len(gt)}/{len(lt)} want {n}")
    if c["dtype"] in ("nonneg_real", "nonneg_int", "nonneg_f32", "nonneg_f16", "nonneg_bigint"):
        check(gt.data.tolist() == (total > ttot).astype(int).tolist(), "gt!=elementwise",
              f"total={total.tolist()} thr={ttot.tolist()} got {gt.data.tolist()}")
        check(lt.data.tolist() == (total < ttot).astype(int).tolist(), "lt!=elementwise",
              f"total={total.tolist()} thr={ttot.tolist()} got {lt.data.tolist()}")
    check(not np.any((gt.data == 1) & (lt.data == 1)), "gt-and-lt-both-true", "")
    g.verify()
    g.no_alias([("gt", gt.data), ("lt", lt.data)])
    g.release()
    return {"nontrivial": c["noise"] or form.startswith("es"), "classes": [c["dtype"], form, "noise" if c["noise"] else "clean"]}


PARTS = [
    Part("words", e_words, kind="enum", enum=enum_words, shards=1, exhaustive=True,
         rule="exhaustive: all 8191 bit strings of length 0..12 in 10 container forms (+scalars for length 1), ~ and ~~"),
    Part("pairs", e_pairs, kind="enum", enum=enum_pairs, shards=1, exhaustive=True,
         rule="exhaustive: all pairs of words of length 0..5, 8 right-hand and 4 left-hand container forms"),
    Part("slices", e_slice, s_slice, quick=1500, thorough=50000, shards=8, rule="non-trivial: word longer than 2"),
    Part("trees", e_tree, s_tree, quick=1200, thorough=50000, shards=16, rule="non-trivial: >=2 concatenations and >=1 inversion"),
    Part("reject", e_reject, s_reject, quick=500, thorough=15000, shards=4, rule="every rejected construction/operand class"),
    Part("ctor_atheris", eval_text("binseq"), kind="custom", custom=lambda ctx, n: run_campaign(ctx, "binseq", n), quick=0, thorough=150000, shards=4, only_tier="thorough",
         rule="coverage-guided (atheris/libFuzzer) campaigns on the str constructor: valid uint8 0/1 1-D data or ValueError/TypeError; thorough tier only"),
    Part("compare", e_cmp, s_cmp(), quick=1500, thorough=50000, shards=8, rule="non-trivial: noise component present or electrical_signal threshold"),
]
