"""C12 - PPM encode/decode is a bijection on whole symbols; HDD/SDD emit valid codewords."""
import itertools

import numpy as np
from hypothesis import strategies as st

from ..core import check, lib, raises, Guard
from ..lib import binary_sequence, electrical_signal, gv, reset, PPM, D
from ..runner import Part
from .c15 import valid, container

RULE = ("bit strings (exhaustive <=12 bits x 8 orders), slot patterns (exhaustive <=16 slots, M<=8, several numpy seeds), long random "
        "words in every container form, generated waveforms for SDD; oracles: big-endian reference encoder, round trip, codeword "
        "validity predicate, arg-max of per-slot sums")
ASSUMPTIONS = [
    "orders M in {2,4,...,256}; M=0/1 and negative orders are not generated (outside 'orders that are not powers of two' as testable inputs)",
    "SDD waveforms are built with Vout>0 (ON slot carries the larger integrated amplitude)",
]
ORDERS = [2, 4, 8, 16, 32, 64, 128, 256]
FORMS = ["bs", "str", "str_sp", "str_comma", "list", "tuple", "arr_int", "arr_bool", "arr_u8"]


def ref_encode(bits, M):
    k = M.bit_length() - 1
    ns = len(bits) // k
    out = [0] * (ns * M)
    for s in range(ns):
        v = 0
        for b in bits[s * k:(s + 1) * k]:
            v = (v << 1) | int(b)
        out[s * M + v] = 1
    return out


def enum_codec(tier, shard, nshards):
    k = 0
    for n in range(12, -1, -1):
        for M in ORDERS:
            if k % nshards == shard:
                yield {"n": n, "M": M}
            k += 1


def e_codec(c):
    n, M = c["n"], c["M"]
    k = M.bit_length() - 1
    cnt = 0
    for bits in itertools.product((0, 1), repeat=n):
        bits = list(bits)
        arg = np.array(bits, dtype=np.uint8) if n else []
        enc = lib(PPM.PPM_ENCODER, arg, M)
        valid(enc, "encoder output")
        want = ref_encode(bits, M)
        check(enc.data.tolist() == want, "encoder!=big-endian-reference", f"bits={bits} M={M} got {enc.data.tolist()}")
        check(len(enc) == (n // k) * M, "encoder-length", "")
        if n // k:
            blocks = enc.data.reshape(-1, M)
            check(bool(np.all(blocks.sum(axis=1) == 1)), "encoder-not-one-ON-per-block", f"{bits} M={M}")
            dec = lib(PPM.PPM_DECODER, enc, M)
            valid(dec, "decoder output")
            check(dec.data.tolist() == bits[: (n // k) * k], "decoder(encoder(b))!=b", f"bits={bits} M={M} got {dec.data.tolist()}")
        cnt += 1
    return {"nontrivial": n // k >= 2, "weight": cnt, "classes": [f"M{M}"]}


def enum_hdd(tier, shard, nshards):
    maxslots = 12 if tier == "quick" else 16
    jobs = []
    for M in (2, 4, 8):
        for L in range(M, maxslots + 1, M):
            nblk = 1 if L < 14 else 8
            for blk in range(nblk):
                jobs.append({"M": M, "L": L, "blk": blk, "nblk": nblk})
    for i, j in enumerate(jobs):
        if i % nshards == shard:
            yield j


def check_hdd(inp, out, M, what):
    valid(out, "HDD output")
    check(len(out) == len(inp), "hdd-length", what)
    a = np.asarray(inp).reshape(-1, M)
    o = out.data.reshape(-1, M)
    cnt = a.sum(axis=1)
    check(bool(np.all(o.sum(axis=1) == 1)), "hdd-not-one-ON-per-symbol", what)
    one = cnt == 1
    check(bool(np.array_equal(o[one], a[one])), "hdd-changed-valid-symbol", what)
    multi = cnt > 1
    check(bool(np.all((o[multi] & (1 - a[multi])) == 0)), "hdd-kept-slot-was-OFF", what)


def e_hdd(c):
    M, L = c["M"], c["L"]
    total = 2 ** L
    lo, hi = total * c["blk"] // c["nblk"], total * (c["blk"] + 1) // c["nblk"]
    shifts = np.arange(L - 1, -1, -1)
    cnt = 0
    mixed = 0
    for v in range(lo, hi):
        pat = ((v >> shifts) & 1).astype(np.uint8)
        for seed in (0, 1, 12345):
            np.random.seed(seed)
            g = Guard()
            g.add("pattern", pat)
            out = lib(PPM.HDD, pat, M)
            check_hdd(pat, out, M, f"pattern={pat.tolist()} M={M} seed={seed}")
            g.verify()
            g.no_alias([("out", out.data)])
            g.release()
            cnt += 1
        s = pat.reshape(-1, M).sum(axis=1)
        mixed += int((s == 0).any() and (s > 1).any())
    return {"nontrivial": L >= 2 * M, "weight": cnt, "classes": [f"M{M}", f"L{L}"], "mixed": mixed}


# --------------------------------------------------------------------------------------------------

@st.composite
def s_long(draw):
    return {"seed": draw(st.integers(0, 2 ** 31)), "n": draw(st.one_of(st.integers(1, 64), st.integers(64, 4096))),
            "M": draw(st.sampled_from(ORDERS)), "form": draw(st.sampled_from(FORMS)), "hseed": draw(st.integers(0, 2 ** 31)),
            "p1": draw(st.sampled_from([0.5, 0.5, 0.1, 0.9]))}


def e_long(c):
    rs = np.random.RandomState(c["seed"])
    M = c["M"]
    k = M.bit_length() - 1
    bits = (rs.uniform(size=c["n"]) < c["p1"]).astype(int).tolist()
    want = ref_encode(bits, M)
    base = lib(PPM.PPM_ENCODER, np.array(bits, dtype=np.uint8), M)
    check(base.data.tolist() == want, "encoder!=big-endian-reference", f"n={c['n']} M={M}")
    arg = container(bits, c["form"])
    g = Guard()
    if c["form"] == "bs":
        g.add_bits("arg", arg)
    elif isinstance(arg, np.ndarray):
        g.add("arg", arg)
    enc = lib(PPM.PPM_ENCODER, arg, M)
    valid(enc, "encoder output")
    check(enc.data.tolist() == want, "encoder-container-dependent", f"form={c['form']}")
    g.verify()
    g.no_alias([("enc", enc.data)])
    g.release()
    ns = len(bits) // k
    if ns == 0:
        return {"nontrivial": False, "classes": ["no-symbol"]}
    cw = container(want, c["form"])
    g = Guard()
    if c["form"] == "bs":
        g.add_bits("cw", cw)
    elif isinstance(cw, np.ndarray):
        g.add("cw", cw)
    dec = lib(PPM.PPM_DECODER, cw, M)
    valid(dec, "decoder output")
    check(dec.data.tolist() == bits[: ns * k], "decoder(encoder(b))!=b", f"form={c['form']} M={M} n={c['n']}")
    np.random.seed(c["hseed"] % 2 ** 32)
    h = lib(PPM.HDD, cw, M)
    check_hdd(np.array(want), h, M, "HDD on a valid codeword")
    check(h.data.tolist() == want, "hdd-not-identity-on-codeword", "")
    # a corrupted codeword, same numpy seed => same answer whatever the container
    noisy = np.array(want, dtype=np.uint8) ^ (rs.uniform(size=len(want)) < 0.2).astype(np.uint8)
    np.random.seed(c["hseed"] % 2 ** 32)
    h1 = lib(PPM.HDD, noisy.copy(), M)
    check_hdd(noisy, h1, M, "HDD on a corrupted codeword")
    np.random.seed(c["hseed"] % 2 ** 32)
    h2 = lib(PPM.HDD, container(noisy.tolist(), c["form"]), M)
    check(h1.data.tolist() == h2.data.tolist(), "hdd-container-dependent", f"form={c['form']}")
    # boundary symbols for this order: every slot ON, no slot ON, all but one ON, first+last ON
    sp = np.zeros((5, M), dtype=np.uint8)
    sp[0, :] = 1
    sp[2, :] = 1
    sp[2, int(rs.randint(0, M))] = 0
    sp[3, [0, M - 1]] = 1
    sp[4, int(rs.randint(0, M))] = 1
    sp = sp[rs.permutation(5)].reshape(-1)
    np.random.seed(c["hseed"] % 2 ** 32)
    hs = lib(PPM.HDD, container(sp.tolist(), c["form"]), M)
    check_hdd(sp, hs, M, f"HDD on boundary symbols (all ON / none ON / M-1 ON / ends ON), M={M}")
    sat = "-"
    if c["hseed"] % 3 == 0:
        # a saturated (every slot ON) and an empty record of many symbols: every symbol still gets exactly one slot, among those that were ON
        S = 1024 if M >= 64 else 256
        for nm, rec in (("saturated", np.ones(S * M, dtype=np.uint8)), ("empty", np.zeros(S * M, dtype=np.uint8))):
            np.random.seed((c["hseed"] // 3) % 2 ** 32)
            hh = lib(PPM.HDD, rec if c["form"] != "bs" else container(rec.tolist(), "bs"), M)
            check_hdd(rec, hh, M, f"HDD on a {nm} record of {S} symbols, M={M}")
        sat = "saturated+empty-record"
    g.verify()
    g.release()
    return {"nontrivial": ns >= 2 and len(set(bits)) > 1, "classes": [c["form"], f"M{M}", "long" if c["n"] > 64 else "short", sat]}


@st.composite
def s_sdd(draw):
    M = draw(st.sampled_from([2, 4, 8, 16, 32]))
    return {"M": M, "nsym": draw(st.integers(1, 12)), "sps": draw(st.integers(2, 64)), "seed": draw(st.integers(0, 2 ** 31)),
            "shape": draw(st.sampled_from(["nrz", "rz", "gaussian", "random", "zeros", "const", "int", "twin"])), "Vout": draw(st.floats(0.01, 40)),
            "bias": draw(st.sampled_from([0.0, 0.0, 0.5, 3.0])), "sigma": draw(st.sampled_from([0.0, 0.0, 0.05, 0.3, 2.0])),
            "T": draw(st.floats(0.5, 2.0)), "m": draw(st.integers(1, 3)),
            "form": draw(st.sampled_from(["es", "es_noise", "array", "list"]))}


def e_sdd(c):
    reset()
    M, sps, ns = c["M"], c["sps"], c["nsym"]
    gv(sps=sps, R=1e9)
    rs = np.random.RandomState(c["seed"])
    sym = rs.randint(0, M, ns)
    cw = np.zeros(ns * M, dtype=np.uint8)
    cw[np.arange(ns) * M + sym] = 1
    if c["shape"] == "random":
        wave = rs.uniform(0, 1, ns * M * sps)
    elif c["shape"] == "zeros":                   # nothing received at all
        wave = np.zeros(ns * M * sps)
    elif c["shape"] == "const":                   # a flat line: every slot ties
        wave = np.full(ns * M * sps, c["bias"] + c["Vout"])
    elif c["shape"] == "int":                     # coarsely quantised samples (ADC counts): exact ties between slots are common
        wave = rs.randint(0, 3, ns * M * sps).astype(float)
    elif c["shape"] == "twin":                    # two ON slots of identical shape in every symbol
        cw2 = cw.copy().reshape(ns, M)
        cw2[np.arange(ns), (sym + 1 + rs.randint(0, M - 1, ns)) % M] = 1
        wave = lib(D.DAC, cw2.reshape(-1), Vout=c["Vout"], bias=c["bias"], pulse_shape="nrz").signal.real
    elif c["shape"] == "gaussian":
        T = int(min(2 * sps, max((sps + 1) // 2, round(c["T"] * sps))))
        wave = lib(D.DAC, cw, Vout=c["Vout"], bias=c["bias"], pulse_shape="gaussian", T=T, m=c["m"]).signal.real
    else:
        wave = lib(D.DAC, cw, Vout=c["Vout"], bias=c["bias"], pulse_shape=c["shape"]).signal.real
    noise = rs.normal(0, c["sigma"] * c["Vout"], wave.size) if c["sigma"] else np.zeros(wave.size)
    total = wave + noise
    if c["form"] == "es":
        arg = electrical_signal(total)
    elif c["form"] == "es_noise":
        arg = electrical_signal(wave, noise)
    elif c["form"] == "array":
        arg = total.copy()
    else:
        arg = total.tolist()
    g = Guard()
    if isinstance(arg, electrical_signal):
        g.add_signal("arg", arg)
    elif isinstance(arg, np.ndarray):
        g.add("arg", arg)
    before = dict(gv.__dict__)
    out = lib(PPM.SDD, arg, M)
    check({k: id(v) for k, v in gv.__dict__.items()} == {k: id(v) for k, v in before.items()}, "sdd-changed-gv", "")
    valid(out, "SDD output")
    check(len(out) == ns * M, "sdd-length", f"{len(out)} != {ns * M}")
    o = out.data.reshape(ns, M)
    check(bool(np.all(o.sum(axis=1) == 1)), "sdd-not-one-ON-per-symbol", "")
    sums = total.reshape(ns * M, sps).sum(axis=1).reshape(ns, M)
    picked = sums[np.arange(ns), o.argmax(axis=1)]
    mx = sums.max(axis=1)
    check(bool(np.all(picked >= mx - 1e-9 * np.maximum(1.0, np.abs(mx)))), "sdd-not-argmax", f"sums={sums.tolist()[:2]} out={o.tolist()[:2]}")
    leak = "-"
    if c["sigma"] == 0 and c["shape"] in ("nrz", "rz", "gaussian"):
        # identity on the noiseless waveform of a codeword - whenever the ON slot does carry the largest integrated amplitude
        # (very wide Gaussian pulses on a 2-3 sample grid can put more into a neighbouring slot; that is the waveform, not SDD)
        on = sums[np.arange(ns), sym]
        others = np.where(cw.reshape(ns, M) == 1, -np.inf, sums)
        if bool(np.all(on > others.max(axis=1) + 1e-9 * np.abs(on))):
            check(out.data.tolist() == cw.tolist(), "sdd-not-identity-on-noiseless-waveform", f"shape={c['shape']} sps={sps} M={M}")
            leak = "on-slot-dominates"
        else:
            leak = "pulse-leaks-into-neighbour"
    g.verify()
    g.no_alias([("out", out.data)])
    g.release()
    # wrong length
    if total.size > 1:
        raises(ValueError, PPM.SDD, total[:-1].copy(), M, tag="sdd-partial-symbol-accepted")
    return {"nontrivial": ns >= 2, "classes": [c["shape"], c["form"], "noisy" if c["sigma"] else "clean", "odd-sps" if sps % 2 else "even-sps", leak]}


s_rej = st.fixed_dictionaries({"M": st.integers(3, 300).filter(lambda m: m & (m - 1)), "n": st.integers(1, 64), "seed": st.integers(0, 2 ** 31),
                               "Mok": st.sampled_from(ORDERS), "extra": st.integers(1, 255), "sps": st.integers(1, 16)})


def e_rej(c):
    reset()
    gv(sps=c["sps"], R=1e9)
    rs = np.random.RandomState(c["seed"])
    M = c["M"]
    pat = rs.randint(0, 2, c["n"] * M).astype(np.uint8)
    raises(ValueError, PPM.HDD, pat, M, tag="hdd-non-power-of-two-accepted")
    raises(ValueError, PPM.HDD, binary_sequence(pat), M, tag="hdd-non-power-of-two-accepted")
    raises(ValueError, PPM.SDD, rs.uniform(0, 1, c["n"] * M * c["sps"]), M, tag="sdd-non-power-of-two-accepted")
    raises(ValueError, PPM.SDD, electrical_signal(rs.uniform(0, 1, c["n"] * M * c["sps"])), M, tag="sdd-non-power-of-two-accepted")
    Mok = c["Mok"]
    extra = c["extra"] % Mok or 1
    raises(ValueError, PPM.HDD, rs.randint(0, 2, c["n"] * Mok + extra).astype(np.uint8), Mok, tag="hdd-partial-symbol-accepted")
    ex2 = c["extra"] % (Mok * c["sps"]) or 1
    raises(ValueError, PPM.SDD, rs.uniform(0, 1, c["n"] * Mok * c["sps"] + ex2), Mok, tag="sdd-partial-symbol-accepted")
    return {"nontrivial": True, "classes": ["reject"]}


PARTS = [
    Part("codec", e_codec, kind="enum", enum=enum_codec, shards=8, quick_shards=4, exhaustive=True,
         rule="exhaustive: every bit string of length 0..12 x M in {2..256}"),
    Part("hdd", e_hdd, kind="enum", enum=enum_hdd, shards=16, quick_shards=4, exhaustive=True,
         rule="exhaustive: every slot pattern of <=12 (quick) / <=16 (thorough) slots for M in {2,4,8} under numpy seeds 0,1,12345"),
    Part("long", e_long, s_long(), quick=800, thorough=30000, shards=8, rule="non-trivial: >=2 symbols, both bit values present"),
    Part("sdd", e_sdd, s_sdd(), quick=1000, thorough=36000, shards=8, rule="non-trivial: >=2 symbols"),
    Part("reject", e_rej, s_rej, quick=300, thorough=12000, shards=2, rule="orders that are not powers of two; partial symbols"),
]
