"""C20 - PPG3204 driver emits only in-range commands; memory round-trips; SYNC aligns."""
import contextlib
import io
import re
import warnings

import numpy as np
from hypothesis import strategies as st
from hypothesis.stateful import RuleBasedStateMachine, rule, precondition

from ..core import check, lib, raises, Violation, Guard
from ..lib import gv, reset, LAB, D, electrical_signal, binary_sequence
from ..runner import Part

RULE = ("stateful histories (Hypothesis RuleBasedStateMachine) of set_*/get_*/config calls on a PPG3204 whose VISA session is a harness-side fake instrument "
        "(records every command, models the pattern memory, answers queries in IEEE-488.2 block format), mirrored by a dry-run instance whose printed "
        "commands must be identical; requested values log-spread below/at/inside/at/above each limit, scalars and per-channel lists, channel selections "
        "incl. out-of-range and over-long ones, data lengths 1..10^4 dense around multiples of 1024; SYNC on PRBS7/9 waveforms with generated delay, "
        "repetitions, noise and container; non-trivial: history with an out-of-range request, or set/get length > 1024 or at a multiple of 1024; SYNC with "
        "d >= 1 and noise")
ASSUMPTIONS = [
    "bit-shift range and set_data start-address range are not among the limits the statement lists: requests for them are generated in range only",
    "wrongly typed arguments may raise ValueError (documented) and are not generated in the machine; they are probed in a separate part",
    "SYNC waveforms are unipolar NRZ (levels 0 and A > 0) with white Gaussian noise of sigma <= 0.1 A",
]
LIM = {"freq": (1.5e9, 32e9), "amp": (0.3, 2.0), "off": (-2.0, 3.0), "skew": (-25e-12, 25e-12), "plen": (2, 2 ** 21)}
ORDERS = [7, 9, 11, 15, 23, 31]
MEM = 2 ** 21


class FakeInst:
    """harness-side model of the instrument's remote interface"""

    def __init__(self):
        self.log = []
        self.mem = {c: np.zeros(MEM + 2, dtype=np.uint8) for c in (1, 2, 3, 4)}
        self.timeout = 0

    def query(self, cmd):
        self.log.append(cmd)
        m = re.fullmatch(r":DIG(\d+):PATT:DATA\? (-?\d+),(-?\d+)", cmd)
        if m:
            ch, addr, n = int(m.group(1)), int(m.group(2)), int(m.group(3))
            if ch not in self.mem or addr < 1 or n < 1 or n > 1024 or addr + n - 1 > MEM:
                return "\n\n"                      # the instrument rejects the query
            bits = "".join(map(str, self.mem[ch][addr:addr + n]))
            return f"#{len(str(n))}{n}{bits}\n"
        m = re.fullmatch(r":DIG(\d+):PATT:DATA (\d+),(\d+),#(\d)(\d+)", cmd)
        if m:
            ch, addr, n, k = int(m.group(1)), int(m.group(2)), int(m.group(3)), int(m.group(4))
            rest = m.group(5)
            if ch in self.mem and len(rest) >= k:
                nn, bits = int(rest[:k]), rest[k:]
                if nn == n == len(bits) and set(bits) <= {"0", "1"} and 1 <= addr and addr + n - 1 <= MEM:
                    self.mem[ch][addr:addr + n] = np.frombuffer(bits.encode(), dtype=np.uint8) - 48
            return "\n"
        if cmd.endswith("?"):
            return "0\n"
        return "\n"

    def clear(self):
        pass

    def close(self):
        pass


CMD = [
    (re.compile(r":DIG(\d+):PATT:LENG (\S+)"), "plen"),
    (re.compile(r":DIG(\d+):PATT:TYPE (DATA|PRBS)"), "type"),
    (re.compile(r":DIG(\d+):PATT:PLEN (\S+)"), "order"),
    (re.compile(r":DIG(\d+):PATT:DATA (\d+),(\d+),#(\d)(\d+)"), "data"),
    (re.compile(r":DIG(\d+):PATT:DATA\? (\S+),(\S+)"), "dataq"),
    (re.compile(r":DIG(\d+):PATT:BSH (-?\d+)"), "bsh"),
    (re.compile(r":OUTP(\d+) (ON|OFF)"), "outp"),
    (re.compile(r":FREQ (\S+)"), "freq"),
    (re.compile(r":SKEW(\d+) (\S+)"), "skew"),
    (re.compile(r":VOLT(\d+):POS (\S+)v"), "amp"),
    (re.compile(r":VOLT(\d+):(?:NEG|POS):OFFS (\S+)v"), "off"),
]


def parse(cmd):
    for rx, kind in CMD:
        m = rx.fullmatch(cmd)
        if m:
            return kind, m.groups()
    return None, None


def validate(cmd):
    """grammar + channel + documented limits of one emitted command; returns (kind, channel, value)"""
    kind, g = parse(cmd)
    check(kind is not None, "command-not-in-grammar", repr(cmd))
    ch = None
    if kind != "freq":
        ch = int(g[0])
        check(1 <= ch <= 4, "channel-out-of-range", repr(cmd))

    def num(sv, integer=False):
        try:
            return int(sv) if integer else float(sv)
        except ValueError:
            raise Violation("command-value-not-a-number", repr(cmd)) from None
    val = None
    if kind == "freq":
        val = num(g[0])
        check(LIM["freq"][0] <= val <= LIM["freq"][1], "frequency-out-of-limits", repr(cmd))
    elif kind == "amp":
        val = num(g[1])
        check(LIM["amp"][0] - 1e-9 <= val <= LIM["amp"][1] + 1e-9, "amplitude-out-of-limits", repr(cmd))
    elif kind == "off":
        val = num(g[1])
        check(LIM["off"][0] - 1e-9 <= val <= LIM["off"][1] + 1e-9, "offset-out-of-limits", repr(cmd))
        check((":NEG:" in cmd) == (val < 0) or val == 0, "offset-sign-keyword", repr(cmd))
    elif kind == "skew":
        val = num(g[1])
        check(LIM["skew"][0] * (1 + 1e-9) <= val <= LIM["skew"][1] * (1 + 1e-9), "skew-out-of-limits", repr(cmd))
    elif kind == "plen":
        val = num(g[1], True)
        check(LIM["plen"][0] <= val <= LIM["plen"][1], "pattern-length-out-of-limits", repr(cmd))
    elif kind == "order":
        val = num(g[1], True)
        check(val in ORDERS, "prbs-order-not-supported", repr(cmd))
    elif kind == "data":
        addr, n, k, rest = int(g[1]), int(g[2]), int(g[3]), g[4]
        check(len(rest) > k, "data-header-malformed", cmd[:60])
        nn, bits = int(rest[:k]), rest[k:]
        check(k == len(str(n)) and nn == n, "data-header-wrong", cmd[:60])
        check(len(bits) == n and set(bits) <= {"0", "1"}, "data-bit-count!=header", f"{cmd[:40]}... {len(bits)} bit characters for n={n}")
        check(1 <= n <= 1024, "data-block>1024-bits", cmd[:60])
        val = (addr, n, bits)
    elif kind == "dataq":
        addr, n = num(g[1], True), num(g[2], True)
        check(1 <= n <= 1024, "data-query-length-out-of-range", repr(cmd))
        check(1 <= addr <= MEM, "data-query-address-out-of-range", repr(cmd))
        val = (addr, n)
    return kind, ch, val


def clampv(v, lo, hi):
    return min(max(v, lo), hi)


class Interp:
    def __init__(self):
        self.ppg = LAB.PPG3204()
        self.ppg.inst = FakeInst()
        self.dry = LAB.PPG3204()
        self.stats = {"oor": 0, "bigdata": 0, "steps": 0, "cmds": 0, "derived": 0}
        self.prev_bits = None

    def run(self, fn_name, *a, **k):
        """call on the instrumented driver (recording warnings + new commands) and on the dry-run twin (capturing stdout)"""
        n0 = len(self.ppg.inst.log)
        with warnings.catch_warnings(record=True) as w:
            warnings.simplefilter("always")
            ret = lib(getattr(self.ppg, fn_name), *a, **k)
        new = self.ppg.inst.log[n0:]
        buf = io.StringIO()
        with contextlib.redirect_stdout(buf), warnings.catch_warnings():
            warnings.simplefilter("ignore")
            lib(getattr(self.dry, fn_name), *a, **k)
        printed = [ln for ln in buf.getvalue().split("\n") if ln]
        check(printed == new, "dry-run-commands!=instrument-commands", f"{fn_name}: dry-run {printed[:3]} vs instrument {new[:3]}")
        self.stats["cmds"] += len(new)
        warned = [x for x in w if issubclass(x.category, UserWarning)]
        return ret, new, warned

    def chans(self, sel):
        """expected channel list for a selection (the driver clips to 1..4 and to 4 entries, with a warning)"""
        if sel is None:
            return [1, 2, 3, 4], False
        lst = [sel] if isinstance(sel, int) else list(sel)
        bad = any(c < 1 or c > 4 for c in lst) or len(lst) > 4
        return [clampv(c, 1, 4) for c in lst][:4], bad

    def apply(self, s):
        self.stats["steps"] += 1
        op = s["op"]
        if op == "freq":
            lo, hi = LIM["freq"]
            _, new, w = self.run("set_freq", s["v"])
            check(len(new) == 1, "set_freq-command-count", str(new))
            kind, _, val = validate(new[0])
            oor = not (lo <= s["v"] <= hi)
            self.expect_clamp("freq", [s["v"]], [val], oor, w, 1e-5)
        elif op in ("amp", "off", "skew", "plen"):
            fn = {"amp": "set_output_voltage", "off": "set_offset", "skew": "set_skew", "plen": "set_patt_len"}[op]
            chs, badch = self.chans(s["chs"])
            v = s["v"]
            vals = [v] * len(chs) if not isinstance(v, list) else v
            arg = v if not isinstance(v, list) else (np.array(v) if s.get("as_array") else list(v))
            _, new, w = self.run(fn, arg, s["chs"])
            exp_n = min(len(chs), len(vals))
            check(len(new) == exp_n, f"{fn}-command-count", f"{len(new)} commands for channels {chs} values {vals}: {new[:4]}")
            got = []
            for c_, cmd in zip(chs, new):
                kind, ch, val = validate(cmd)
                check(kind == op and ch == c_, f"{fn}-wrong-command", f"{cmd!r} for channel {c_}")
                got.append(val)
            lo, hi = LIM[op]
            oor = any(not (lo <= x <= hi) for x in vals[:exp_n])
            # a value beyond the selected channels is never sent; the driver may still warn about it
            spare = any(not (lo <= x <= hi) for x in vals[exp_n:])
            res = {"amp": 0.05 + 1e-9, "off": 0.05 + 1e-9, "skew": 1e-21, "plen": 0}[op]
            self.expect_clamp(op, vals[:exp_n], got, oor, w, res, absolute=True, badch=badch, may=spare)
        elif op == "order":
            chs, badch = self.chans(s["chs"])
            v = s["v"]
            vals = [v] * len(chs) if not isinstance(v, list) else v
            _, new, w = self.run("set_prbs_order", v, s["chs"])
            exp_n = min(len(chs), len(vals))
            check(len(new) == exp_n, "set_prbs_order-command-count", f"{new}")
            for c_, x, cmd in zip(chs, vals, new):
                kind, ch, val = validate(cmd)
                check(kind == "order" and ch == c_, "set_prbs_order-wrong-command", repr(cmd))
                if x in ORDERS:
                    check(val == x, "supported-order-changed", f"{x} -> {cmd!r}")
                else:
                    best = min(abs(o - x) for o in ORDERS)
                    check(abs(val - x) == best, "order-not-nearest-supported", f"{x} -> {val}")
            oor = any(x not in ORDERS for x in vals[:exp_n])
            self.warn_iff(oor or badch, w, "set_prbs_order", may=any(x not in ORDERS for x in vals[exp_n:]))
            if oor:
                self.stats["oor"] += 1
        elif op == "mode":
            chs, badch = self.chans(s["chs"])
            _, new, w = self.run("set_mode", s["v"], s["chs"])
            check(len(new) == len(chs), "set_mode-command-count", str(new))
            for c_, cmd in zip(chs, new):
                kind, ch, val = validate(cmd)
                check(kind == "type" and ch == c_ and cmd.endswith(s["v"].upper()), "set_mode-wrong-command", repr(cmd))
            self.warn_iff(badch, w, "set_mode")
        elif op == "outputs":
            chs, badch = self.chans(s["chs"])
            _, new, w = self.run("enable_outputs" if s["v"] else "disable_outputs", s["chs"])
            check(len(new) == len(chs), "outputs-command-count", str(new))
            for c_, cmd in zip(chs, new):
                kind, ch, _ = validate(cmd)
                check(kind == "outp" and ch == c_, "outputs-wrong-command", repr(cmd))
        elif op == "data":
            self.data(s)
        elif op == "config":
            kw = {k: v for k, v in s["kw"].items() if v is not None}
            _, new, w = self.run("config" if s["via"] == "config" else "__call__", **kw)
            for cmd in new:
                validate(cmd)
        else:
            raise ValueError(op)

    def warn_iff(self, cond, w, what, may=False):
        if cond:
            check(len(w) >= 1, "out-of-range-request-without-warning", what)
        elif may:
            pass
        else:
            check(len(w) == 0, "warning-on-in-range-request", f"{what}: {[str(x.message)[:80] for x in w][:1]}")

    def expect_clamp(self, kind, req, got, oor, w, res, absolute=False, badch=False, may=False):
        lo, hi = LIM[kind]
        for r_, g_ in zip(req, got):
            want = clampv(r_, lo, hi)
            tol = res if absolute else res * abs(want)
            check(abs(g_ - want) <= tol, "emitted-value!=clamped-request", f"{kind}: requested {r_!r} emitted {g_!r} expected {want!r}")
        self.warn_iff(oor or badch, w, f"set {kind} {req}", may=may)
        if oor:
            self.stats["oor"] += 1

    def data(self, s):
        rs = np.random.RandomState(s["seed"])
        n, addr = s["n"], s["addr"]
        chs, badch = self.chans(s["chs"])
        per_channel = s["form"].startswith("2d")
        if per_channel:
            bits2 = rs.randint(0, 2, (len(chs), n)).astype(np.uint8)
            # the same per-channel matrix in the memory layouts arrays arrive in: C order, Fortran order, a transposed view
            # (e.g. serial.reshape(-1, 4).T of a demultiplexed stream), boolean
            arg = {"2d": bits2, "2d-F": np.asfortranarray(bits2), "2d-T": np.ascontiguousarray(bits2.T).T, "2d-bool": bits2.astype(bool)}[s["form"]]
        elif s["form"] == "strided":
            bits = rs.randint(0, 2, n).astype(np.uint8)
            bits2 = np.tile(bits, (len(chs), 1))
            arg = np.repeat(bits, 3)[::3]            # a non-contiguous 1-D view holding the same bits
        else:
            bits = rs.randint(0, 2, n).astype(np.uint8)
            if s.get("derive") and self.prev_bits is not None:
                # a frame related to the one uploaded just before on this driver object: the same bits zero-padded by 1..7 cells, cut by 1..7
                # cells, with the last cell flipped, or identical (re-upload at possibly another address) - whatever the driver remembers of the
                # previous transfer, the cells written are those of THIS frame
                k_ = 1 + s["seed"] % 7
                base_ = self.prev_bits
                bits = {"zero-ext": np.concatenate([base_, np.zeros(k_, np.uint8)]), "cut": base_[:max(1, base_.size - k_)].copy(),
                        "flip-last": np.concatenate([base_[:-1], 1 - base_[-1:]]), "same": base_.copy()}[s["derive"]]
                n = int(bits.size)
                addr = min(addr, MEM - n + 1)          # (stay inside the pattern memory, as the un-derived requests do by construction)
                self.stats["derived"] += 1
            self.prev_bits = bits.copy()
            bits2 = np.tile(bits, (len(chs), 1))
            arg = {"str": "".join(map(str, bits)), "list": bits.tolist(), "array": bits, "bool": bits.astype(bool)}[s["form"]]
        _, new, w = self.run("set_data", arg, addr, s["chs"])
        # blocks: <= 1024 bits, correct header, consecutive addresses covering exactly the written range, per channel
        per = {}
        for cmd in new:
            kind, ch, val = validate(cmd)
            check(kind == "data", "set_data-wrong-command", cmd[:50])
            per.setdefault(ch, []).append(val)
        check(sorted(per) == sorted(set(chs)), "set_data-channels", f"{sorted(per)} vs {chs}")
        for i, c_ in enumerate(chs):
            blocks = per[c_] if chs.count(c_) == 1 else None
            if blocks is None:
                continue
            pos = addr
            cat = ""
            for (a_, n_, b_) in blocks:
                check(a_ == pos, "data-blocks-not-consecutive", f"channel {c_}: block at {a_}, expected {pos}")
                pos += n_
                cat += b_
            check(pos == addr + n and cat == "".join(map(str, bits2[i])), "data-blocks-do-not-cover-the-data", f"channel {c_}: {len(cat)} bits written for {n}")
            check(len(blocks) == -(-n // 1024), "data-block-count", f"{len(blocks)} blocks for {n} bits")
        # read back
        n0 = len(self.ppg.inst.log)
        with warnings.catch_warnings(record=True) as w2:
            warnings.simplefilter("always")
            got = lib(self.ppg.get_data, n, addr, s["chs"])
        for cmd in self.ppg.inst.log[n0:]:
            validate(cmd)
        check(not [x for x in w2 if issubclass(x.category, UserWarning)] or badch, "get_data-warning-on-valid-range", "")
        got = np.asarray(got)
        check(got.shape[0] == len(chs), "get_data-channel-count", f"shape {got.shape}")
        uniq = len(set(chs)) == len(chs)
        for i, c_ in enumerate(chs):
            if not uniq:
                continue
            row = np.asarray(got[i]).reshape(-1)
            check(row.size == n and np.array_equal(row, bits2[i]), "get_data!=set_data", f"channel {c_}: {row.size} bits returned for {n} written; first mismatch at "
                  f"{int(np.argmax(row[:min(row.size, n)] != bits2[i][:min(row.size, n)])) if row.size else -1}")
        if n > 1024 or n % 1024 == 0:
            self.stats["bigdata"] += 1

    def info(self):
        st_ = self.stats
        return {"nontrivial": st_["oor"] >= 1 or st_["bigdata"] >= 1, "classes": [f"oor{min(st_['oor'], 4)}", f"bigdata{min(st_['bigdata'], 3)}", f"derived-frames{min(st_['derived'], 3)}", f"steps{min(st_['steps'] // 5 * 5, 30)}"]}


def eval_history(case):
    from ..core import set_callform
    set_callform(0)          # histories fix the call form of every step themselves
    warnings.simplefilter("ignore")
    it = Interp()
    for s in case["steps"]:
        it.apply(s)
    return it.info()


# --------------------------------------------------------------------------------------------------
# strategies

def around(lo, hi, integer=False):
    """values over >= 3 decades below, at, inside, at and above the limits"""
    span = hi - lo
    base = st.one_of(
        st.sampled_from([lo, hi]),
        st.floats(0, 1).map(lambda u: lo + u * span),
        st.floats(-3, 3).map(lambda e: hi + abs(hi if hi else span) * 10 ** e),
        st.floats(-3, 3).map(lambda e: lo - abs(lo if lo else span) * 10 ** e),
        st.floats(-12, -3).map(lambda e: hi + abs(hi if hi else span) * 10 ** e),      # just outside, by 1e-12..1e-3 relative
        st.floats(-12, -3).map(lambda e: lo - abs(lo if lo else span) * 10 ** e),
        st.floats(-12, -3).map(lambda e: hi - abs(hi if hi else span) * 10 ** e),      # just inside
        st.floats(-12, -3).map(lambda e: lo + abs(lo if lo else span) * 10 ** e),
    )
    if integer:
        return base.map(lambda v: int(round(v)))
    return base


s_ch = st.one_of(st.none(), st.none(), st.integers(-1, 7), st.lists(st.integers(-1, 7), min_size=1, max_size=6), st.lists(st.integers(1, 4), min_size=1, max_size=4, unique=True))


def scal_or_list(s_v):
    return st.one_of(s_v, s_v, st.lists(s_v, min_size=1, max_size=4))


s_freq = st.fixed_dictionaries({"op": st.just("freq"), "v": st.one_of(around(*LIM["freq"]), around(*LIM["freq"], integer=True))})
s_amp = st.fixed_dictionaries({"op": st.just("amp"), "v": scal_or_list(st.one_of(around(*LIM["amp"]), st.sampled_from([0.0, 0, 1, 2, 5, 0.3, 2.0]))), "chs": s_ch, "as_array": st.booleans()})
s_off = st.fixed_dictionaries({"op": st.just("off"), "v": scal_or_list(st.one_of(around(*LIM["off"]), st.sampled_from([0.0, 0, -2, 3, 5, -5]))), "chs": s_ch, "as_array": st.booleans()})
s_skew = st.fixed_dictionaries({"op": st.just("skew"), "v": scal_or_list(st.one_of(around(*LIM["skew"]), st.sampled_from([0.0, 0, 1e-9, -1e-9]))), "chs": s_ch, "as_array": st.booleans()})
s_plen = st.fixed_dictionaries({"op": st.just("plen"), "v": scal_or_list(st.one_of(around(*LIM["plen"], integer=True), st.sampled_from([0, 1, 2, 3, 2 ** 21, 2 ** 21 + 1, -5]))), "chs": s_ch,
                                "as_array": st.booleans()})
s_order = st.fixed_dictionaries({"op": st.just("order"), "v": scal_or_list(st.one_of(st.sampled_from(ORDERS), st.integers(-3, 64))), "chs": s_ch})
s_mode = st.fixed_dictionaries({"op": st.just("mode"), "v": st.sampled_from(["data", "prbs", "DATA", "PRBS", "Data"]), "chs": s_ch})
s_outp = st.fixed_dictionaries({"op": st.just("outputs"), "v": st.booleans(), "chs": s_ch})
s_n = st.one_of(st.integers(1, 64), st.sampled_from([1023, 1024, 1025, 2047, 2048, 2049, 3071, 3072, 3073, 4096, 10000]), st.integers(1, 10000))
s_data = st.fixed_dictionaries({"op": st.just("data"), "n": s_n, "addr": st.one_of(st.just(1), st.integers(1, 5000), st.integers(1, MEM - 10000)), "seed": st.integers(0, 2 ** 31 - 1),
                                "derive": st.sampled_from([None, None, None, "zero-ext", "zero-ext", "cut", "flip-last", "same"]),
                                "form": st.sampled_from(["str", "list", "array", "bool", "str", "list", "array", "bool", "2d", "2d-F", "2d-T", "2d-bool", "strided"]), "chs": st.one_of(st.none(), st.integers(1, 4), st.lists(st.integers(1, 4), min_size=1, max_size=4, unique=True))})
s_cfg = st.fixed_dictionaries({"op": st.just("config"), "via": st.sampled_from(["config", "call"]), "kw": st.fixed_dictionaries({
    "freq": st.one_of(st.none(), around(*LIM["freq"])), "patt_len": st.one_of(st.none(), around(*LIM["plen"], integer=True)), "Vout": st.one_of(st.none(), around(*LIM["amp"])),
    "offset": st.one_of(st.none(), around(*LIM["off"])), "skew": st.one_of(st.none(), around(*LIM["skew"])), "mode": st.one_of(st.none(), st.sampled_from(["DATA", "PRBS"])),
    "order": st.one_of(st.none(), st.integers(0, 40)), "bsh": st.one_of(st.none(), st.integers(0, 8)), "CHs": st.one_of(st.none(), st.integers(1, 4))})})


def machine(ctx):
    class PPGMachine(RuleBasedStateMachine):
        def __init__(self):
            super().__init__()
            from ..core import set_callform
            set_callform(0)
            self.steps = []
            self.it = Interp()
            self.done = False

        def _do(self, step):
            self.steps.append(step)
            try:
                self.it.apply(step)
            except Violation as v:
                case = {"steps": list(self.steps)}
                fid = ctx.classify(case, v)
                if fid:
                    ctx.kf_hits[fid] += 1
                    self.done = True
                    return
                ctx.failing = {"case": case, "tag": v.tag, "msg": v.msg}
                raise

        @precondition(lambda self: not self.done)
        @rule(s=st.one_of(s_freq, s_amp, s_off, s_skew, s_plen))
        def analog(self, s):
            self._do(s)

        @precondition(lambda self: not self.done)
        @rule(s=st.one_of(s_order, s_mode, s_outp, s_cfg))
        def pattern(self, s):
            self._do(s)

        @precondition(lambda self: not self.done)
        @rule(s=s_data)
        def data(self, s):
            self._do(s)

        def teardown(self):
            ctx.evaluations += 1
            ctx.note({"steps": self.steps}, self.it.info())
    return PPGMachine


# --------------------------------------------------------------------------------------------------
# wrongly typed arguments: only the documented ValueError may be raised

s_typed = st.fixed_dictionaries({"fn": st.sampled_from(["set_patt_len", "set_skew", "set_output_voltage", "set_offset", "set_prbs_order", "set_data", "get_data", "channels", "mode"]),
                                 "bad": st.sampled_from(["3", None, {"a": 1}, 1j])})


def e_typed(c):
    p = LAB.PPG3204()
    p.inst = FakeInst()
    fn, bad = c["fn"], c["bad"]
    with warnings.catch_warnings():
        warnings.simplefilter("ignore")
        if fn == "channels":
            raises(ValueError, p.set_skew, 0.0, "1", tag="bad-channel-type-accepted")
            raises(ValueError, p.set_skew, 0.0, 1.5, tag="bad-channel-type-accepted")
        elif fn == "mode":
            raises(ValueError, p.set_mode, "pulse", tag="bad-mode-accepted")
        elif fn == "get_data":
            raises(ValueError, p.get_data, 10.5, tag="get_data-bad-size-accepted")
            raises(ValueError, p.get_data, 10, "1", tag="get_data-bad-address-accepted")
        elif fn == "set_data":
            raises(ValueError, p.set_data, 12345, tag="set_data-bad-type-accepted")
            raises(ValueError, p.set_data, None, tag="set_data-bad-type-accepted")
        else:
            if fn == "set_patt_len" and bad == "3":
                bad = 3.5
            raises(ValueError, getattr(p, fn), bad, tag=f"{fn}-bad-type-accepted")
    for cmd in p.inst.log:
        validate(cmd)
    return {"nontrivial": True, "classes": [fn]}


# --------------------------------------------------------------------------------------------------
# SYNC

@st.composite
def s_sync(draw):
    big = draw(st.integers(1, 2 ** 30)) % 25 == 7            # a pattern of more than 2^17 samples (PRBS15 at 5 or 8 samples per slot)
    order = 15 if big else draw(st.sampled_from([7, 9]))
    sps = draw(st.sampled_from([5, 8])) if big else draw(st.integers(2, 16))
    nslots = 2 ** 15 - 1 if big else draw(st.sampled_from([2 ** order - 1, 64, 100, 127]))
    nslots = min(nslots, 2 ** order - 1)
    l = nslots * sps
    return {"order": order, "sps": sps, "nslots": nslots,
            "d": draw(st.one_of(st.integers(0, l - 1), st.sampled_from([0, 1, l - 1, l - 2, l - sps // 2, l - sps, sps // 2, sps]))), "reps": 2 if big else draw(st.integers(2, 4)),
            "sigma": draw(st.sampled_from([0.0, 0.0, 0.02, 0.1])), "A": 10 ** draw(st.floats(-1, 1)), "seed": draw(st.integers(0, 2 ** 31 - 1)),
            "form": draw(st.sampled_from(["es", "array"])), "txform": draw(st.sampled_from(["bs", "array", "bool"])), "extra": draw(st.integers(0, 40)),
            "codes": draw(st.sampled_from([None, None, "int16", "int8", "uint8", "int32"]))}      # raw integer codes of a scope / ADC instead of volts


def e_sync(c):
    reset()
    sps = c["sps"]
    gv(sps=sps, R=1e9)
    rs = np.random.RandomState(c["seed"])
    slots = np.asarray(D.PRBS(c["order"], len=c["nslots"], seed=int(rs.randint(1, 2 ** c["order"]))).data, dtype=np.uint8)
    wave = np.kron(slots, np.ones(sps))
    l = wave.size
    d = c["d"] % l
    # the pattern's waveform repeated, delayed by d samples: the stream existed before the record started
    stream = np.tile(wave, c["reps"] + 2)
    rx = c["A"] * stream[l - d: l - d + c["reps"] * l + c["extra"]].astype(float)
    rx = rx + c["sigma"] * c["A"] * rs.standard_normal(rx.size)
    if c.get("codes"):
        full = {"int16": 4000, "int8": 100, "uint8": 200, "int32": 60000}[c["codes"]]
        rx = np.clip(np.rint(rx / c["A"] * full * 0.8 + (0 if c["codes"] == "uint8" else -full * 0.1)), np.iinfo(c["codes"]).min, np.iinfo(c["codes"]).max).astype(c["codes"])
    arg = electrical_signal(rx.copy()) if c["form"] == "es" else rx.copy()
    tx = binary_sequence(slots) if c["txform"] == "bs" else slots.astype(bool) if c["txform"] == "bool" else slots.copy()
    g = Guard()
    if c["form"] == "es":
        g.add_signal("rx", arg)
    else:
        g.add("rx", arg)
    # sps as the integer types a capture file / an array of settings yields
    sps_arg = [sps, sps, np.int64(sps), np.int32(sps), np.uint64(sps), np.uint8(sps)][c["seed"] % 6]
    out = lib(LAB.SYNC, arg, tx, None if c["form"] == "es" else sps_arg)
    check(isinstance(out, tuple) and len(out) == 2, "sync-return-shape", "")
    sig, i = out
    check(type(sig) is electrical_signal, "sync-output-type", type(sig).__name__)
    check(int(i) == d, "sync-index!=delay", f"returned {int(i)} for delay {d} (pattern {l} samples, {c['reps']} repetitions, sigma {c['sigma']}, sps {sps})")
    m = len(sig)
    check(m >= 1 and np.array_equal(sig.signal[:m], rx[d:d + m]), "sync-output-does-not-start-at-delay", "")
    check(m == rx.size - l, "sync-output-length", f"{m} vs {rx.size - l}")
    g.verify()
    g.no_alias([("sync.signal", sig.signal)])
    g.release()
    short = rx[: l - 1 - rs.randint(0, max(1, l // 2))]
    raises(BufferError, LAB.SYNC, short.copy(), slots.copy(), sps, tag="sync-short-record-accepted")
    raises(ValueError, LAB.SYNC, rx.copy(), slots.copy(), tag="sync-missing-sps-accepted")
    return {"nontrivial": d >= 1 and c["sigma"] > 0, "classes": ["d0" if d == 0 else "d>=1", "noise" if c["sigma"] else "clean", c["form"], f"prbs{c['order']}", "codes-" + c["codes"] if c.get("codes") else "volts",
                                                                   "last-half-slot" if d > l - sps / 2 - 1 else "-"]}


PARTS = [
    Part("driver", eval_history, kind="machine", machine=machine, quick=60, thorough=1800, shards=16, quick_shards=6, steps_quick=20, steps_thorough=40, rule="see RULE"),
    Part("typed", e_typed, s_typed, quick=60, thorough=1200, shards=1, rule="wrongly typed arguments raise only the documented ValueError"),
    Part("sync", e_sync, s_sync(), quick=250, thorough=12000, shards=8, quick_shards=2, rule="non-trivial: delay >= 1 and noise"),
]
