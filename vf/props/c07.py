"""C07 - linear propagation (DM, FIBER with gamma=0) is an exact all-pass, additive in length."""
import numpy as np
from hypothesis import strategies as st
from numpy.fft import fft, ifft, fftfreq, ifftshift

from ..core import check, lib, raises, Guard
from ..lib import reset, gv, D, electrical_signal, optical_signal
from ..runner import Part
from ..sigs import s_signal, s_gv, apply_gv, build, contract, LENGTHS

RULE = ("complex fields (any length, 1/2 pol, optional noise) under generated gv.fs; dispersion drawn as a band-edge phase (<=200 rad 2nd order, <=50 rad "
        "3rd order) of either sign, alpha in [0,0.5] dB/km, L in (0,100] km; oracle: reference filter in plain numpy, energy conservation, inverse, "
        "additivity, DM==FIBER, span additivity, loss law, retH consistency; non-trivial: band-edge phase >= 1 rad and (odd N or 2-pol or non-default fs)")
ASSUMPTIONS = [
    "FFT identities to 1e-9*max(1,max|ref|); attenuation law to 3e-5*(alpha*L/4.343)+1e-10 relative because the code converts dB to Np with the constant 4.343",
    "the noise component's treatment by DM/FIBER is not asserted (statement speaks of the field): only its shape/presence",
    "D is passed as Python float or numpy float64 (not as a 0-d array)",
]


@st.composite
def s_case(draw):
    n = draw(st.one_of(st.sampled_from(LENGTHS + [2048, 2047]), st.integers(1, 600)))
    x = draw(s_signal(n=n, cls="O", dts=("c",), fams=["gauss", "unif", "spike", "lead0", "smallint", "alt", "periodic", "sym", "const"]))
    x["scale"] = draw(st.sampled_from([1.0, 1.0, 1e-6, 1e-12, 1e4]))
    return {"x": x, "gv": draw(s_gv(sps_max=64)), "gv2": draw(s_gv(sps_max=64)), "phi2": draw(st.one_of(st.floats(0, 200), st.floats(0, 3), st.just(0.0))), "sgn2": draw(st.sampled_from([1, -1])),
            "phi2b": draw(st.floats(0, 100)), "sgn2b": draw(st.sampled_from([1, -1])),
            "phi3": draw(st.one_of(st.just(0.0), st.floats(0, 50))), "sgn3": draw(st.sampled_from([1, -1])),
            "alpha": draw(st.one_of(st.just(0.0), st.floats(0, 0.5))), "L": draw(st.floats(0.01, 100)), "split": draw(st.floats(0.05, 0.95)),
            "np_D": draw(st.booleans())}


def tol(ref):
    return 1e-9 * (float(np.max(np.abs(ref))) if np.size(ref) else 0.0) + 1e-300      # relative to the data, no absolute floor


def near(a, b, tag, what, f=1.0):
    check(a.shape == b.shape, tag, f"{what}: shapes {a.shape} vs {b.shape}")
    d = float(np.max(np.abs(a - b))) if a.size else 0.0
    check(d <= f * tol(b), tag, f"{what}: max error {d:.3e} (tol {f * tol(b):.1e})")


def e_case(c):
    reset()
    sps, R, fs = apply_gv(c["gv"], c["x"]["sig"]["n"])
    x, m = build(c["x"])
    sc = c["x"].get("scale", 1.0)
    if sc != 1.0:
        from ..sigs import Model
        m = Model(m.cls, m.npol, m.s * sc, None if m.n is None else m.n * sc)
        x = type(x)(m.s.copy(), None if m.n is None else m.n.copy(), n_pol=m.npol)
    N = m.N
    g = Guard()
    g.add_signal("x", x)
    w = 2 * np.pi * fftfreq(N) * fs          # rad/s
    wmax = np.pi * fs
    D2 = c["sgn2"] * 2 * c["phi2"] / (wmax * 1e-12) ** 2            # ps^2
    D2b = c["sgn2b"] * 2 * c["phi2b"] / (wmax * 1e-12) ** 2
    L = c["L"]
    b2, b3 = D2 / L, c["sgn3"] * 6 * c["phi3"] / (wmax * 1e-12) ** 3 / L    # ps^2/km, ps^3/km
    alpha = c["alpha"]
    Darg = np.float64(D2) if c["np_D"] else float(D2)
    # ---- DM against the reference filter
    y = lib(D.DM, x, Darg)
    contract(y, "O", m.npol, N, "DM output")
    check((y.noise is None) == (m.n is None), "noise-presence", "DM")
    ref = ifft(fft(m.s, axis=-1) * np.exp(-1j * w ** 2 * D2 * 1e-24 / 2), axis=-1)
    near(y.signal, ref, "dm!=reference-filter", "DM(D)")
    check(float(Darg) == D2, "dm-mutated-D", "")
    e_in, e_out = np.sum(np.abs(m.s) ** 2, axis=-1), np.sum(np.abs(y.signal) ** 2, axis=-1)
    check(np.allclose(e_out, e_in, rtol=1e-12, atol=1e-300), "dm-energy-not-conserved", f"{e_out} vs {e_in}")
    back = lib(D.DM, y, -D2)
    near(back.signal, m.s, "dm(-D)-does-not-undo-dm(D)", "DM(-D)(DM(D)(x))")
    two = lib(D.DM, lib(D.DM, x, D2b), D2)
    one = lib(D.DM, x, D2 + D2b)
    near(two.signal, one.signal, "dm-not-additive", "DM(D1)DM(D2) vs DM(D1+D2)")
    # retH describes the filter applied
    yH, H = lib(D.DM, x, D2, True)
    check(isinstance(H, np.ndarray) and H.shape == (N,), "retH-shape", f"{getattr(H, 'shape', None)}")
    near(yH.signal, y.signal, "retH-changes-output", "DM(retH=True) output")
    near(ifft(fft(m.s, axis=-1) * ifftshift(H), axis=-1), y.signal, "retH!=applied-filter", "ifft(fft(x)*ifftshift(H))")
    # ---- FIBER, gamma = 0
    f1 = lib(D.FIBER, x, L, 0.0, b2, 0.0, 0.0)
    contract(f1, "O", m.npol, N, "FIBER output")
    check((f1.noise is None) == (m.n is None), "noise-presence", "FIBER")
    near(f1.signal, y.signal, "fiber(L,beta2)!=dm(beta2*L)", "FIBER vs DM", 2.0)
    Hf = np.exp(-alpha * L / (2 * 4.343) - 1j * b2 * L * (w * 1e-12) ** 2 / 2 - 1j * b3 * L * (w * 1e-12) ** 3 / 6)
    f2 = lib(D.FIBER, x, L, alpha, b2, b3, 0.0)
    contract(f2, "O", m.npol, N, "FIBER output")
    near(f2.signal, ifft(fft(m.s, axis=-1) * Hf, axis=-1), "fiber!=reference-filter", "FIBER(alpha,beta2,beta3)")
    L1 = L * c["split"]
    s12 = lib(D.FIBER, lib(D.FIBER, x, L1, alpha, b2, b3, 0.0), L - L1, alpha, b2, b3, 0.0)
    near(s12.signal, f2.signal, "fiber-spans-not-additive", "FIBER(L1)+FIBER(L2) vs FIBER(L1+L2)", 2.0)
    # loss law per polarisation
    e2 = np.sum(np.abs(f2.signal) ** 2, axis=-1)
    want = e_in * 10 ** (-alpha * L / 10)
    rtol_loss = 3e-5 * (alpha * L / 4.343) + 1e-10
    check(np.allclose(e2, want, rtol=rtol_loss, atol=1e-300), "fiber-loss-law", f"alpha*L={alpha * L:.3f} dB: {e2} vs {want}")
    # the same D / the same fibre under another sampling rate configured later in the same process (the filter follows gv.fs)
    sps2, R2, fs2 = apply_gv(c["gv2"])
    w2 = 2 * np.pi * fftfreq(N) * fs2
    # (the same D means a band-edge phase (fs2/fs)^2 times larger: the comparison tolerance follows the phase, whose
    #  sin/cos argument reduction costs ~1e-16 per radian; beyond 1e6 rad the clause is skipped)
    ph2 = (c["phi2"] + c["phi3"] * fs2 / fs) * (fs2 / fs) ** 2
    if ph2 <= 1e6:
        tf2 = max(1.0, ph2 / 100)
        yb = lib(D.DM, x, Darg)
        near(yb.signal, ifft(fft(m.s, axis=-1) * np.exp(-1j * w2 ** 2 * D2 * 1e-24 / 2), axis=-1), "dm-uses-stale-sampling-rate", f"DM(D) after gv: fs {fs:.4g} -> {fs2:.4g}", tf2)
        fb = lib(D.FIBER, x, L, alpha, b2, b3, 0.0)
        Hf2 = np.exp(-alpha * L / (2 * 4.343) - 1j * b2 * L * (w2 * 1e-12) ** 2 / 2 - 1j * b3 * L * (w2 * 1e-12) ** 3 / 6)
        near(fb.signal, ifft(fft(m.s, axis=-1) * Hf2, axis=-1), "fiber-uses-stale-sampling-rate", f"FIBER after gv: fs {fs:.4g} -> {fs2:.4g}", 2 * tf2)
    raises(TypeError, D.DM, electrical_signal(np.ones(4)), 1.0, tag="dm-non-optical-accepted")
    raises(TypeError, D.FIBER, electrical_signal(np.ones(4)), 1.0, tag="fiber-non-optical-accepted")
    raises(TypeError, D.DM, np.ones(4, dtype=complex), 1.0, tag="dm-non-optical-accepted")
    g.verify()
    for nm, o in (("DM", y), ("FIBER", f2)):
        g.no_alias([(nm + ".signal", o.signal), (nm + ".noise", o.noise)])
    g.release()
    if ph2 <= 1e6:
        gv(sps=gv.sps, fs=fs)
        # a twin field with the same first/last sample, sum and energy (interior reversed), then the SAME object edited in place:
        # both must be filtered for what they hold now
        if N >= 4:
            tw = m.s.copy()
            tw[..., 1:-1] = tw[..., -2:0:-1]
            yt = lib(D.DM, type(x)(tw.copy(), n_pol=m.npol), Darg)
            near(yt.signal, ifft(fft(tw, axis=-1) * np.exp(-1j * w ** 2 * D2 * 1e-24 / 2), axis=-1), "dm!=reference-filter", "DM on the interior-reversed twin")
        x.signal[..., 0] = 0
        x.signal[..., N // 2] *= -2
        ye = lib(D.DM, x, Darg)
        near(ye.signal, ifft(fft(x.signal, axis=-1) * np.exp(-1j * w ** 2 * D2 * 1e-24 / 2), axis=-1), "dm-of-stale-content", "DM after the input was edited in place")
        fe = lib(D.FIBER, x, L, alpha, b2, b3, 0.0)
        near(fe.signal, ifft(fft(x.signal, axis=-1) * Hf, axis=-1), "fiber-of-stale-content", "FIBER after the input was edited in place", 2.0)
    ph = c["phi2"] * (1.0 if N > 1 else 0.0)
    nt = ph >= 1 and (N % 2 == 1 or m.npol == 2 or fs != 16e9)
    return {"nontrivial": bool(nt), "classes": [f"pol{m.npol}", "odd" if N % 2 else "even", "N1" if N == 1 else "N>1", "phase>=1" if ph >= 1 else "phase<1",
                                                 "lossy>=1dB" if alpha * L >= 1 else "loss<1dB", "beta3" if c["phi3"] else "no-beta3", c["gv"]["form"],
                                                 "noise" if m.n is not None else "clean"]}


s_huge = st.fixed_dictionaries({"N": st.sampled_from([2 ** 22 + 5, 5_000_000, 2 ** 22]), "seed": st.integers(0, 2 ** 31 - 1), "phi2": st.floats(1, 100), "phi3": st.floats(1, 50),
                                "sgn2": st.sampled_from([1, -1]), "sgn3": st.sampled_from([1, -1]), "alpha": st.floats(0, 0.3), "L": st.floats(1, 100)})


def e_huge(c):
    """records beyond 2^22 samples (index arithmetic of long frequency grids): FIBER(gamma=0) and DM against the reference filter"""
    reset()
    gv(sps=16, R=1e9)
    fs, N = 16e9, c["N"]
    rs = np.random.RandomState(c["seed"])
    s = rs.standard_normal(N) + 1j * rs.standard_normal(N)
    x = optical_signal(s.copy())
    w = 2 * np.pi * fftfreq(N) * fs
    wmax = np.pi * fs
    L = c["L"]
    b2 = c["sgn2"] * 2 * c["phi2"] / (wmax * 1e-12) ** 2 / L
    b3 = c["sgn3"] * 6 * c["phi3"] / (wmax * 1e-12) ** 3 / L
    y = lib(D.FIBER, x, L, c["alpha"], b2, b3, 0.0)
    Hf = np.exp(-c["alpha"] * L / (2 * 4.343) - 1j * b2 * L * (w * 1e-12) ** 2 / 2 - 1j * b3 * L * (w * 1e-12) ** 3 / 6)
    near(y.signal, ifft(fft(s) * Hf), "fiber!=reference-filter", f"FIBER on {N} samples")
    d = lib(D.DM, x, b2 * L)
    near(d.signal, ifft(fft(s) * np.exp(-1j * w ** 2 * b2 * L * 1e-24 / 2)), "dm!=reference-filter", f"DM on {N} samples")
    check(np.array_equal(x.signal, s), "operand-mutated", "")
    return {"nontrivial": True, "classes": [f"N{N}"]}


PARTS = [Part("linear", e_case, s_case(), quick=1000, thorough=40000, shards=16, quick_shards=2, rule="see RULE"),
         Part("huge", e_huge, s_huge, quick=0, thorough=2, shards=8, shrink=False, only_tier="thorough",
              rule="thorough tier only: 2^22 .. 5e6 samples with second- and third-order dispersion")]
