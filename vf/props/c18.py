"""C18 - ADC is a true n-bit quantiser; shortest_int returns a shortest covering interval."""
from fractions import Fraction

import numpy as np
from hypothesis import strategies as st

from ..core import check, lib, raises, Guard
from ..lib import reset, D, U, electrical_signal
from ..runner import Part
from ..sigs import contract

RULE = ("real records of 2..2^17 samples (>= half of them >= 10001 samples so that the 99.99% range excludes outliers) with Gaussian/uniform/sinusoidal/"
        "quantised/outlier-planted amplitudes, n in 1..12, both otype values, ndarray and electrical_signal(+noise) inputs; shortest_int on tied/continuous "
        "data against a brute-force minimum over the sorted data; non-trivial: ADC record with >=1 sample outside [V_min,V_max]; shortest_int data with "
        ">=2 tied minima at non-adjacent positions")
ASSUMPTIONS = [
    "the full-scale range [V_min, V_max] is the library's own shortest_int(total, 99.99) (the estimator the statement refers to); shortest_int itself is "
    "checked separately against brute force",
    "records whose estimated range is degenerate (V_max == V_min) are excluded; percentages with floor(p*len/100) = 0 are excluded and counted",
]


@st.composite
def s_adc(draw):
    big = draw(st.booleans())
    N = draw(st.sampled_from([10001, 12000, 20000, 50000, 2 ** 15, 2 ** 17])) if big else draw(st.one_of(st.integers(2, 300), st.sampled_from([2, 3, 1000, 9999, 10000])))
    return {"N": N, "dist": draw(st.sampled_from(["gauss", "uniform", "sine", "quantised", "outliers"])), "seed": draw(st.integers(0, 2 ** 31 - 1)),
            "scale": 10 ** draw(st.floats(-3, 3)), "offset": draw(st.floats(-3, 3)), "n": draw(st.integers(1, 12)), "otype": draw(st.sampled_from(["v", "n"])),
            "form": draw(st.sampled_from(["array", "es", "es_noise", "intarray"])), "levels": draw(st.integers(2, 40)), "default_n": draw(st.booleans())}


def make_record(c):
    rs = np.random.RandomState(c["seed"])
    N = c["N"]
    d = c["dist"]
    if d == "gauss":
        x = rs.standard_normal(N)
    elif d == "uniform":
        x = rs.uniform(-1, 1, N)
    elif d == "sine":
        x = np.sin(2 * np.pi * rs.uniform(0.001, 0.3) * np.arange(N) + rs.uniform(0, 6)) + 0.01 * rs.standard_normal(N)
    elif d == "quantised":
        x = rs.randint(0, c["levels"], N).astype(float)
    else:
        x = rs.standard_normal(N)
        if rs.randint(0, 2):
            k = max(1, N // 2000)
            x[rs.choice(N, k, replace=False)] = rs.choice([-1, 1], k) * rs.uniform(6, 30, k)
        else:
            # so few isolated pulses that the 99.99% range leaves them out (it drops len - floor(0.9999*len) - 1 samples), from just outside
            # the range to a billion full-scale ranges away
            k = max(1, N - int(N * 0.9999) - 1)
            x[rs.choice(N, k, replace=False)] = rs.choice([-1, 1], k) * 10 ** rs.uniform(0.8, 9.5, k)
    return x * c["scale"] + c["offset"] * c["scale"]


def rng_of(v):
    # spread of the bulk of the record (isolated pulses a billion ranges away must not set the offset of the refilled buffer: the samples
    # themselves would then be representable only to ~1e-6 of a quantisation step)
    return float(np.percentile(v, 99) - np.percentile(v, 1)) or float(np.max(v) - np.min(v)) or 1.0


def e_adc(c):
    reset()
    x = make_record(c)
    N = x.size
    rs = np.random.RandomState(c["seed"] ^ 77)
    if c["form"] == "intarray":
        x = np.rint(x / c["scale"] * 100).astype(np.int64)      # integer-valued record (e.g. raw codes) given as an int ndarray
        arg, total = x.copy(), x.astype(float)
    elif c["form"] == "array":
        arg, total = x.copy(), x
    elif c["form"] == "es":
        arg, total = electrical_signal(x.copy()), x
    else:
        nz = 0.05 * c["scale"] * rs.standard_normal(N)
        arg, total = electrical_signal(x - nz, nz), (x - nz) + nz
    g = Guard()
    if isinstance(arg, electrical_signal):
        g.add_signal("x", arg)
    else:
        g.add("x", arg)
    n = 8 if c["default_n"] else c["n"]
    kw = {} if c["default_n"] else {"n": n}
    state = {}

    def quantiser_ok(arg, total, what):
        lo, hi = [float(v) for v in np.asarray(lib(U.shortest_int, total, 99.99)).ravel()]
        if not hi > lo:
            return None
        y = lib(D.ADC, arg, otype=c["otype"], **kw)
        contract(y, "E", 1, N, "ADC output")
        v = y.signal
        check(np.all(np.isfinite(v)), "adc-non-finite", what)
        step = (hi - lo) / (2 ** n - 1)
        rng = hi - lo
        inside = (total >= lo) & (total <= hi)
        if c["otype"] == "n":
            check(bool(np.all(v == np.round(v))), "adc-code-not-integer", what)
            check(bool(v.min() >= 0 and v.max() <= 2 ** n - 1), "adc-code-out-of-range", f"{what}n={n}: codes in [{v.min()}, {v.max()}], {len(np.unique(v))} distinct values")
            check(len(np.unique(v)) <= 2 ** n, "adc-too-many-levels", f"{what}{len(np.unique(v))} > 2^{n}")
            rec = v * step + lo
            check(bool(np.all(v[total > hi] == 2 ** n - 1)) and bool(np.all(v[total < lo] == 0)), "adc-no-saturation", what)
        else:
            check(bool(v.min() >= lo - 1e-12 * rng and v.max() <= hi + 1e-12 * rng), "adc-level-out-of-range",
                  f"{what}n={n}: levels in [{v.min()}, {v.max()}] vs range [{lo}, {hi}]")
            check(len(np.unique(np.round((v - lo) / step))) <= 2 ** n, "adc-too-many-levels", f"{what}{len(np.unique(np.round((v - lo) / step)))} > 2^{n}")
            rec = v
            check(bool(np.all(np.abs(v[total > hi] - hi) <= 1e-9 * rng)) and bool(np.all(np.abs(v[total < lo] - lo) <= 1e-9 * rng)), "adc-no-saturation", what)
        err = np.abs(rec[inside] - total[inside])
        check(err.size == 0 or float(err.max()) <= step / 2 * (1 + 1e-9) + 1e-12 * rng, "adc-error>half-step",
              f"{what}max error {err.max() if err.size else 0:.3e} step/2 {step / 2:.3e}")
        state["y"], state["inside"] = y, inside
        return y

    y = quantiser_ok(arg, total, "")
    if y is None:
        return {"nontrivial": False, "classes": ["degenerate-range"]}
    inside = state["inside"]
    g.verify()
    g.no_alias([("ADC.signal", y.signal)])
    g.release()
    # the same buffer refilled in place with another capture (a different range): the conversion follows the data now in the buffer
    refill = "-"
    if c["form"] in ("array", "intarray", "es"):
        buf = arg.signal if isinstance(arg, electrical_signal) else arg
        new = (total[::-1] * 3.7 + 11.0 * rng_of(total))
        if buf.dtype.kind == "i":
            new = np.rint(new)
        buf[...] = new.astype(buf.dtype)
        if quantiser_ok(arg, buf.astype(float), "after the input buffer was refilled in place: ") is not None:
            refill = "buffer-refilled"
    raises(ValueError, D.ADC, arg, None, n, "x", tag="adc-bad-otype-accepted")
    nout = int((~inside).sum())
    return {"nontrivial": nout >= 1, "classes": [c["dist"], c["otype"], c["form"], "N>=10001" if N >= 10001 else "N<10001", "saturating" if nout else "no-outliers", f"n{n}", refill]}


@st.composite
def s_si(draw):
    kind = draw(st.sampled_from(["int", "int", "quantised", "continuous", "plateaus"]))
    N = draw(st.one_of(st.integers(2, 60), st.integers(60, 3000), st.sampled_from([10000, 30000, 100000])))
    p = draw(st.one_of(st.sampled_from([50.0, 10.0, 25.0, 30.0, 75.0, 90.0, 99.0, 99.99, 1.0, 33.0]), st.floats(0.01, 99.99)))
    return {"kind": kind, "N": N, "p": p, "seed": draw(st.integers(0, 2 ** 31 - 1)), "levels": draw(st.integers(2, 12)),
            "lit": draw(st.one_of(st.none(), st.lists(st.integers(0, 30), min_size=2, max_size=12)))}


def e_si(c):
    rs = np.random.RandomState(c["seed"])
    N, p = c["N"], c["p"]
    if c["lit"] is not None:
        data = np.array(c["lit"], dtype=float)
        N = data.size
    elif c["kind"] == "int":
        data = rs.randint(0, max(3, N // 2), N).astype(float)
    elif c["kind"] == "quantised":
        data = rs.randint(0, c["levels"], N) * 0.25
    elif c["kind"] == "plateaus":
        data = np.sort(rs.randint(0, c["levels"], N)).astype(float) * 5 + np.where(rs.uniform(size=N) < 0.3, rs.randint(0, 3, N), 0)
    else:
        data = rs.standard_normal(N)
    lag = int(Fraction(p) * N / 100)
    if lag < 1 or lag != int(N * p / 100) or lag >= N:
        return {"nontrivial": False, "classes": ["lag0-or-boundary-excluded"]}
    g = Guard()
    g.add("data", data)
    arg = data
    if c["seed"] % 3 == 1 and np.all(data == np.round(data)):
        arg = data.astype(np.int64)                              # integer dtype
        g.add("data-int", arg)
    r = np.asarray(lib(U.shortest_int, arg, p)).ravel()
    g.verify()
    g.release()
    check(r.size == 2, "shortest_int-shape", f"{r.shape}")
    lo, hi = float(r[0]), float(r[1])
    srt = np.sort(data)
    widths = srt[lag:] - srt[:-lag]
    best = float(widths.min())
    check(lo <= hi, "shortest_int-lo>hi", f"{lo} {hi}")
    starts = np.flatnonzero(srt[:-lag] == lo)
    ok = any(srt[i + lag] == hi for i in starts)
    check(ok, "shortest_int-not-lag-apart", f"data={srt.tolist()[:20]} p={p} lag={lag}: returned ({lo},{hi}) are not order statistics {lag} apart")
    check(hi - lo <= best + 1e-10, "shortest_int-not-shortest", f"data={srt.tolist()[:20]} p={p} lag={lag}: returned ({lo},{hi}) width {hi - lo}, minimum {best}")
    check(int(((data >= lo) & (data <= hi)).sum()) >= lag + 1, "shortest_int-covers-too-few", "")
    tied = np.flatnonzero(np.abs(widths - best) < 1e-10)
    nt = tied.size >= 2 and (np.diff(tied) > 1).any()
    return {"nontrivial": bool(nt), "classes": [c["kind"] if c["lit"] is None else "literal", "ties" if tied.size >= 2 else "unique-min", "nonadjacent-ties" if nt else "adjacent/none"]}



def enum_lag(tier, shard, nshards):
    """every (length, integer percentage) pair: the lag floor(p*len/100) is a step function of both, with exact-integer corners"""
    top = 600 if tier == "quick" else 5000
    Ns = sorted(set(range(2, top + 1)) | set(range(50, 4001, 50)) | ({10000, 20000} if tier == "thorough" else set()))
    for k, N in enumerate(Ns):
        if k % nshards == shard:
            yield {"N": N}


def e_lag(c):
    N = c["N"]
    rs = np.random.RandomState(N)
    data = rs.standard_normal(N)                       # continuous: no ties, the covering interval of minimal width is unique
    srt = np.sort(data)
    ps = [float(p) for p in range(1, 100)] + ([k / 10 for k in range(1, 1000, 7)] if N <= 300 or N % 125 == 0 else [])
    n = 0
    for p in ps:
        lag = int(Fraction(p) * N / 100)               # exact floor(p*len/100)
        if lag < 1 or lag >= N:
            continue
        if Fraction(p) * N / 100 != lag and lag != int(N * p / 100):
            continue                                    # (non-integer product that the float expression rounds across an integer: not claimed)
        r = np.asarray(lib(U.shortest_int, data, p)).ravel()
        lo, hi = float(r[0]), float(r[1])
        i = int(np.searchsorted(srt, lo))
        check(i < N and srt[i] == lo and i + lag < N and srt[i + lag] == hi, "shortest_int-not-lag-apart",
              f"len={N} p={p}: returned ({lo},{hi}) are not order statistics floor(p*len/100)={lag} apart (interval holds {int(((data >= lo) & (data <= hi)).sum())} samples, needs {lag + 1})")
        check(hi - lo <= float((srt[lag:] - srt[:-lag]).min()) + 1e-12, "shortest_int-not-shortest", f"len={N} p={p}")
        n += 1
    return {"nontrivial": n > 0, "weight": max(n, 1), "classes": ["len%50==0" if N % 50 == 0 else "other-len"]}


PARTS = [
    Part("adc", e_adc, s_adc(), quick=500, thorough=15000, shards=8, quick_shards=2, rule="non-trivial: >=1 sample outside the estimated full-scale range"),
    Part("lag_grid", e_lag, kind="enum", enum=enum_lag, shards=16, quick_shards=4, exhaustive=True,
         rule="exhaustive: every integer percentage 1..99 (plus 143 one-decimal percentages for short lengths) x every length 2..600 (quick) / 2..5000 (thorough) "
              "and the multiples of 50 up to 4000: end points exactly floor(p*len/100) order statistics apart and of minimal width"),
    Part("shortest_int", e_si, s_si(), quick=3000, thorough=100000, shards=8, rule="non-trivial: >=2 tied minima at non-adjacent positions"),
]
