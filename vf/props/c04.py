"""C04 - PRBS emits the maximal-length sequence of its ITU polynomial and can be resumed."""
import warnings

import numpy as np
from hypothesis import strategies as st

from ..core import check, lib, raises, Violation
from ..lib import D, binary_sequence
from ..runner import Part

RULE = ("(1) computed GF(2) certificate that x^n+x^t+1 is primitive for the seven documented tap pairs; (2) the generator's state cycle cut "
        "into chunks whose start states come from matrix-power jump-ahead of an independent reference LFSR: every chunk is compared bit for "
        "bit and its final state with the next chunk's start (exhaustive over all non-zero states for the orders listed in "
        "exhaustive_domains); (3) Hypothesis-generated seeds/lengths/splits for the API laws. non-trivial: chunk verified incl. hand-over "
        "state, or resume case with >=2 splits and a non-default seed")
ASSUMPTIONS = [
    "the reference is the recurrence a[m]=a[m-n]^a[m-t] with the seed's bit j as the output j steps before the first, as the property states it",
    "PRBS31's 2^31-1 states are enumerated only in the thorough tier; the quick tier samples 64 chunks of 2^16 states",
    "len given as numpy integer or bool is not generated (statement: 'len must be a positive int')",
]
TAPS = {7: 6, 9: 5, 11: 9, 15: 14, 20: 3, 23: 18, 31: 28}
FACTORS = {7: [127], 9: [7, 73], 11: [23, 89], 15: [7, 31, 151], 20: [3, 5, 5, 11, 31, 41], 23: [47, 178481], 31: [2147483647]}

# --------------------------------------------------------------------------------------------------
# GF(2) reference


def T_columns(n, t):
    cols = []
    for j in range(n):
        v = (1 << (j + 1)) if j + 1 < n else 0
        if j == n - 1 or j == t - 1:
            v ^= 1
        cols.append(v)
    return cols


def mat_vec(cols, v):
    r = 0
    j = 0
    while v:
        if v & 1:
            r ^= cols[j]
        v >>= 1
        j += 1
    return r


def mat_mul(A, B):
    return [mat_vec(A, b) for b in B]


def mat_pow(A, e):
    n = len(A)
    R = [1 << j for j in range(n)]
    while e:
        if e & 1:
            R = mat_mul(A, R)
        A = mat_mul(A, A)
        e >>= 1
    return R


def jump(n, t, state, steps):
    return mat_vec(mat_pow(T_columns(n, t), steps), state)


def ref_bits(n, t, state, length):
    """outputs o[0..length] (length+1 values) of the recurrence started from `state`; vectorised with the
    Frobenius identity a[m] = a[m - n*2^k] ^ a[m - t*2^k]."""
    total = length + 1
    buf = np.zeros(n - 1 + total, dtype=np.uint8)
    for j in range(n):
        buf[n - 1 - j] = (state >> j) & 1
    i = n  # next index in buf to fill (o index = i-(n-1))
    end = buf.size
    k = 0
    while i < end:
        while n << (k + 1) <= i:
            k += 1
        nn, tt = n << k, t << k
        j = min(end, i + tt)
        buf[i:j] = buf[i - nn:j - nn] ^ buf[i - tt:j - tt]
        i = j
    return _Seq(buf, n - 1)


class _Seq:
    """o[m] for m >= -(n-1): outputs, with the virtual predecessors at negative indices"""

    def __init__(self, buf, off):
        self.buf, self.off = buf, off

    def __getitem__(self, k):
        if isinstance(k, slice):
            assert k.start is None and k.step is None
            stop = len(self.buf) - self.off + k.stop if k.stop < 0 else k.stop
            return self.buf[self.off:self.off + stop]
        return self.buf[self.off + k]


def state_after(n, o, length):
    s = 0
    for j in range(n):
        s |= int(o[length - j]) << j
    return s


# --------------------------------------------------------------------------------------------------
# certificate

def pmulmod(a, b, p, n):
    r = 0
    while b:
        if b & 1:
            r ^= a
        b >>= 1
        a <<= 1
        if (a >> n) & 1:
            a ^= p
    return r


def ppowmod(e, p, n):
    r, base = 1, 2  # x
    while e:
        if e & 1:
            r = pmulmod(r, base, p, n)
        base = pmulmod(base, base, p, n)
        e >>= 1
    return r


def is_prime(q):
    if q < 2:
        return False
    i = 2
    while i * i <= q:
        if q % i == 0:
            return False
        i += 1
    return True


def enum_cert(tier, shard, nshards):
    for n in TAPS:
        yield {"order": n, "t": TAPS[n]}


def e_cert(c):
    n, t = c["order"], c["t"]
    fs = FACTORS[n]
    prod = 1
    for q in fs:
        check(is_prime(q), "certificate-factor-not-prime", str(q))
        prod *= q
    check(prod == 2 ** n - 1, "certificate-factorisation-wrong", f"{fs}")
    for poly_t in (t, n - t):  # characteristic polynomial and its reciprocal
        p = (1 << n) | (1 << poly_t) | 1
        check(ppowmod(2 ** n - 1, p, n) == 1, "certificate-order-does-not-divide", f"x^(2^{n}-1) != 1 mod x^{n}+x^{poly_t}+1")
        for q in set(fs):
            check(ppowmod((2 ** n - 1) // q, p, n) != 1, "certificate-not-primitive", f"order divides (2^{n}-1)/{q}")
    # the transition matrix of the reference has the same order (ties the certificate to the reference model)
    Tn = mat_pow(T_columns(n, t), 2 ** n - 1)
    check(Tn == [1 << j for j in range(n)], "reference-period-mismatch", "T^(2^n-1) != I")
    for q in set(fs):
        check(mat_pow(T_columns(n, t), (2 ** n - 1) // q) != [1 << j for j in range(n)], "reference-period-shorter", str(q))
    # the library's tap table is the documented one (observed through behaviour: first n+1 outputs from seed 1)
    return {"nontrivial": True, "classes": [f"order{n}"]}


# --------------------------------------------------------------------------------------------------
# exhaustive agreement, chunked

CH = 1 << 20


def enum_agree(tier, shard, nshards):
    jobs = []
    for n in (7, 9, 11, 15, 20, 23):
        period = 2 ** n - 1
        nchunks = (period + CH - 1) // CH
        for i in range(nchunks):
            jobs.append({"order": n, "chunk": i, "nchunks": nchunks, "size": CH, "full": True})
    if tier == "thorough":
        period = 2 ** 31 - 1
        nchunks = (period + CH - 1) // CH
        for i in range(nchunks):
            jobs.append({"order": 31, "chunk": i, "nchunks": nchunks, "size": CH, "full": True})
    else:
        rs = np.random.RandomState(31)
        for i in sorted(set(rs.randint(0, (2 ** 31 - 1) // (1 << 16), 64).tolist())):
            jobs.append({"order": 31, "chunk": int(i), "nchunks": (2 ** 31 - 1) // (1 << 16) + 1, "size": 1 << 16, "full": False})
    # interleave so that shards get equal work
    for k, j in enumerate(jobs):
        if k % nshards == shard:
            yield j


def e_agree(c):
    n = c["order"]
    t = TAPS[n]
    period = 2 ** n - 1
    size = c["size"]
    start = c["chunk"] * size
    length = min(size, period - start)
    s0 = (1 << n) - 1  # documented default seed: all ones
    s = jump(n, t, s0, start)
    check(s != 0, "reference-reached-zero-state", "")
    o = ref_bits(n, t, s, length)
    nxt = state_after(n, o, length)
    out, st_ = lib(D.PRBS, n, len=int(length), seed=int(s), return_seed=True)
    check(type(out) is binary_sequence and out.data.dtype == np.uint8 and out.data.shape == (length,), "prbs-output-type",
          f"{type(out).__name__} {getattr(out.data, 'shape', None)}")
    if not np.array_equal(out.data, o[:length]):
        k = int(np.argmax(out.data != o[:length]))
        raise Violation("prbs!=reference-sequence", f"order {n} from state {s:#x}: first difference at output {k}")
    check(int(st_) == nxt, "prbs-returned-state!=reference", f"order {n} start {s:#x} len {length}: got {int(st_):#x} want {nxt:#x}")
    last = start + length == period
    if last:
        check(nxt == s0, "cycle-does-not-close", f"order {n}: state after 2^n-1 steps is {nxt:#x}")
    else:
        check(nxt == jump(n, t, s0, start + length), "reference-self-inconsistent", "")
    ones = int(out.data.sum())
    return {"nontrivial": True, "weight": int(length), "classes": [f"order{n}"], "ones": ones, "order": n, "full": c["full"]}


def custom_agree(ctx, n_unused):
    """Runs the chunk jobs of this shard, accumulates ones per order for the balance clause."""
    ones = {}
    lens = {}
    for case in enum_agree(ctx.tier, ctx.shard, ctx.nshards):
        info = ctx.run(case)
        if ctx.violations or ctx.abort:
            return
        if info:
            ones[info["order"]] = ones.get(info["order"], 0) + info["ones"]
            lens[info["order"]] = lens.get(info["order"], 0) + info["weight"]
    for n, tot in lens.items():
        ctx.classes[f"states-order{n}"] += tot
        ctx.classes[f"ones-order{n}"] += ones[n]


def finalize(tier, classes):
    """Parent-side, after merging all shards: balance clause and which orders were enumerated completely."""
    viol, domains = [], []
    for n in TAPS:
        states = classes.get(f"agree.states-order{n}", 0)
        ones = classes.get(f"agree.ones-order{n}", 0)
        if states == 2 ** n - 1:
            if ones != 2 ** (n - 1):
                viol.append({"part": "agree", "case": {"order": n, "balance": True}, "tag": "ones-per-period!=2^(n-1)",
                             "msg": f"order {n}: {ones} ones in one period"})
            domains.append(f"PRBS{n}: all {2 ** n - 1} non-zero states (output bit + successor state), {ones} ones per period")
    return viol, domains


# --------------------------------------------------------------------------------------------------
# API laws

@st.composite
def s_api(draw):
    n = draw(st.sampled_from(list(TAPS)))
    kind = draw(st.sampled_from(["plain", "negative", "oversized", "npint", "zero", "default", "huge", "zero-huge"]))
    base = draw(st.integers(1, 2 ** n - 1))
    mult = draw(st.integers(1, 1000))
    splits = draw(st.lists(st.integers(1, 700), min_size=1, max_size=6))
    return {"order": n, "kind": kind, "base": base, "mult": mult, "splits": splits}


def e_api(c):
    n, t = c["order"], TAPS[c["order"]]
    kind = c["kind"]
    eff = c["base"]
    if kind == "plain":
        seed = c["base"]
    elif kind == "negative":
        seed = c["base"] - c["mult"] * 2 ** n
    elif kind == "oversized":
        seed = c["base"] + c["mult"] * 2 ** n
    elif kind == "npint":
        seed = np.int64(c["base"])
    elif kind == "huge":            # Python integers around and far beyond the 64-bit limits (either sign)
        seed = c["base"] + [2 ** 63, 2 ** 63 + 2 ** 40 * c["mult"], 2 ** 64 - 2 ** n, 2 ** 64, 2 ** 100, 1 << 14400, -(2 ** 63) - 2 ** n, -(1 << 20000)][c["mult"] % 8] // 2 ** n * 2 ** n
    elif kind == "zero-huge":       # astronomically large multiples of 2^n: replaced by 1 with the warning, like any other zero seed
        seed = [1 << 14400, -(1 << 20000), 3 << 64, 2 ** 63, 2 ** 64][c["mult"] % 5] // 2 ** n * 2 ** n
        eff = 1
        kind = "zero"
    elif kind == "zero":
        seed = (c["mult"] - 500) * 2 ** n
        eff = 1
    else:
        seed = None
        eff = 2 ** n - 1
    total = sum(c["splits"])
    sd = seed if not isinstance(seed, int) or abs(seed) < 2 ** 200 else f"<{seed.bit_length()}-bit integer>"     # (decimal rendering of huge ints is capped by Python)
    o = ref_bits(n, t, eff, total)
    with warnings.catch_warnings(record=True) as w:
        warnings.simplefilter("always")
        out, stt = lib(D.PRBS, n, len=total, seed=seed, return_seed=True)
    warned = any(issubclass(x.category, UserWarning) for x in w)
    if kind == "zero":
        check(warned, "zero-seed-no-warning", f"seed={sd}")
    else:
        check(not warned, "spurious-warning", f"seed={sd}: {[str(x.message) for x in w][:1]}")
    check(np.array_equal(out.data, o[:total]), "prbs!=reference-sequence", f"order {n} seed {sd} (effective {eff:#x}) len {total}")
    check(int(out.data[0]) == (eff & 1), "first-output!=seed-LSB", "")
    check(int(stt) == state_after(n, o, total), "prbs-returned-state!=reference", f"order {n} seed {sd}")
    # the caller owns the returned sequence: scribbling on it must not change what an identical later call returns
    first_bits = out.data.copy()
    try:
        out.data[...] = 1 - out.data
    except ValueError:
        raise Violation("prbs-result-not-writable", "") from None
    with warnings.catch_warnings(record=True) as w3:
        warnings.simplefilter("always")
        again, st_again = lib(D.PRBS, n, len=total, seed=seed, return_seed=True)
    check(again is not out and np.array_equal(again.data, first_bits) and int(st_again) == int(stt), "prbs-results-share-state", f"order {n} seed {sd} len {total}")
    check(any(issubclass(x.category, UserWarning) for x in w3) == (kind == "zero"), "zero-seed-warning-depends-on-history", f"seed={sd}")
    out.data[...] = first_bits
    # plain call (no return_seed) gives the same bits
    with warnings.catch_warnings():
        warnings.simplefilter("ignore")
        out2 = lib(D.PRBS, n, total, seed)
    check(type(out2) is binary_sequence and np.array_equal(out2.data, out.data), "return_seed-changes-output", "")
    # resume law
    cur = seed
    pieces = []
    with warnings.catch_warnings():
        warnings.simplefilter("ignore")
        for a in c["splits"]:
            p, cur = lib(D.PRBS, n, len=a, seed=cur, return_seed=True)
            check(len(p) == a, "prbs-length", f"len={a} got {len(p)}")
            pieces.append(p.data)
    cat = np.concatenate(pieces)
    check(np.array_equal(cat, out.data), "resume!=single-call", f"order {n} seed {sd} splits {c['splits']}")
    check(int(cur) == int(stt), "resume-final-state!=single-call", "")
    return {"nontrivial": len(c["splits"]) >= 2 and kind != "default", "classes": [kind, f"order{n}", f"splits{min(len(c['splits']), 4)}"]}



# --------------------------------------------------------------------------------------------------
# every request length in a window (length-dependent code paths: block sizes, vector/loop switch-overs), and call histories

WIN = 9300


def enum_lengths(tier, shard, nshards):
    """thorough: every length 1..WIN for every order (from a state that depends on the length); quick: ~310 lengths per order"""
    k = 0
    for n in TAPS:
        if tier == "thorough":
            lens = range(1, WIN + 1)
        else:
            rs = np.random.RandomState(1000 + n)
            lens = sorted(set(rs.randint(1, WIN + 1, 300).tolist()) | {1, 2, n - 1, n, n + 1, 4095, 4096, 4097, 8191, 8192, WIN})
        for L in lens:
            if k % nshards == shard:
                yield {"order": n, "len": int(L)}
            k += 1


def e_length(c):
    n, L = c["order"], c["len"]
    t = TAPS[n]
    s = ((L * 2654435761) ^ (L << 7) ^ 0x5A5A5) % (2 ** n - 1) + 1          # a non-zero state that varies with the length
    o = ref_bits(n, t, s, L)
    out, st_ = lib(D.PRBS, n, len=L, seed=s, return_seed=True)
    check(out.data.shape == (L,) and np.array_equal(out.data, o[:L]), "prbs!=reference-sequence", f"order {n} state {s:#x} len {L}")
    check(int(st_) == state_after(n, o, L), "prbs-returned-state!=reference", f"order {n} start {s:#x} len {L}: got {int(st_):#x} want {state_after(n, o, L):#x}")
    more, _ = lib(D.PRBS, n, len=n + 3, seed=st_, return_seed=True)
    o2 = ref_bits(n, t, s, L + n + 3)
    check(np.array_equal(more.data, o2[:L + n + 3][L:]), "resume!=single-call", f"order {n} state {s:#x}: {n + 3} bits resumed after {L}")
    return {"nontrivial": L > n, "classes": [f"order{n}", "len>=4096" if L >= 4096 else "len<4096"]}


@st.composite
def s_hist(draw):
    n = draw(st.sampled_from(list(TAPS)))
    ln = st.one_of(st.integers(2 ** 17, 2 ** 17 + 40000), st.integers(2 ** 17, 2 ** 17 + 40000), st.integers(1, 6000), st.integers(4096, 70000))
    return {"order": n, "base": draw(st.integers(1, 2 ** n - 1)), "lens": draw(st.lists(ln, min_size=2, max_size=3)), "same_seed": draw(st.sampled_from([True, True, False]))}


def e_hist(c):
    """successive calls in one process, mostly with the SAME (order, seed) and different lengths (longer then shorter, shorter then longer):
    each call returns the reference bits and the reference state whatever was requested before"""
    n, t = c["order"], TAPS[c["order"]]
    cls = []
    prev = None
    for i, L in enumerate(c["lens"]):
        s = c["base"] if c["same_seed"] else (c["base"] + i * 7919) % (2 ** n - 1) + 1
        o = ref_bits(n, t, s, L)
        out, st_ = lib(D.PRBS, n, len=L, seed=s, return_seed=True)
        check(out.data.shape == (L,) and np.array_equal(out.data, o[:L]), "prbs!=reference-sequence", f"order {n} state {s:#x} len {L} (call {i + 1} of {c['lens']})")
        check(int(st_) == state_after(n, o, L), "prbs-returned-state!=reference", f"order {n} state {s:#x} len {L} (call {i + 1} of {c['lens']}, same seed: {c['same_seed']})")
        if prev is not None and c["same_seed"]:
            cls.append("shorter-after-longer" if L < prev else "longer-after-shorter" if L > prev else "same-length")
            if min(L, prev) >= 2 ** 17:
                cls.append("both>=2^17")
        prev = L
    return {"nontrivial": c["same_seed"] and max(c["lens"]) >= 2 ** 17, "classes": cls + [f"order{n}"]}


s_err = st.fixed_dictionaries({"order": st.integers(1, 40), "len": st.sampled_from([0, -1, -100, "20", 3.0, None, [5], 2.5]),
                               "good": st.sampled_from(list(TAPS)), "seed": st.integers(1, 100)})


def e_err(c):
    order = c["order"]
    if order not in TAPS:
        raises(ValueError, D.PRBS, order, 10, tag="unsupported-order-accepted")
        raises(ValueError, D.PRBS, order, 10, c["seed"], tag="unsupported-order-accepted")
        if order <= 20:
            raises(ValueError, D.PRBS, order, tag="unsupported-order-accepted")
    ln = c["len"]
    if ln is None:
        if c["good"] <= 15:
            out = lib(D.PRBS, c["good"])
            check(len(out) == 2 ** c["good"] - 1, "default-length!=2^n-1", f"{len(out)}")
            o = ref_bits(c["good"], TAPS[c["good"]], 2 ** c["good"] - 1, len(out))
            check(np.array_equal(out.data, o[:-1]), "default-seed!=all-ones", "")
            check(int(out.data.sum()) == 2 ** (c["good"] - 1), "ones-per-period!=2^(n-1)", "")
    elif isinstance(ln, int):
        raises(ValueError, D.PRBS, c["good"], ln, tag="non-positive-len-accepted")
        raises(ValueError, D.PRBS, c["good"], len=ln, seed=c["seed"], return_seed=True, tag="non-positive-len-accepted")
    else:
        raises((TypeError, ValueError), D.PRBS, c["good"], ln, tag="non-int-len-accepted")
    return {"nontrivial": True, "classes": ["bad-order" if order not in TAPS else "good-order", f"len:{type(ln).__name__}"]}


PARTS = [
    Part("certificate", e_cert, kind="enum", enum=enum_cert, shards=1, exhaustive=True,
         rule="GF(2) proof of primitivity for all seven polynomials + period of the reference transition matrix"),
    Part("agree", e_agree, kind="custom", custom=custom_agree, shards=16, quick_shards=12, exhaustive=True,
         rule="every chunk of the state cycle compared bit-for-bit with the reference incl. hand-over state; one evaluation per state"),
    Part("api", e_api, s_api(), quick=600, thorough=20000, shards=8, rule="non-trivial: >=2 splits and a non-default seed"),
    Part("lengths", e_length, kind="enum", enum=enum_lengths, shards=16, quick_shards=4,
         rule="quick: ~310 request lengths per order in 1..9300 (switch-over values included); thorough: EVERY length 1..9300 for every order; bits, returned state and a resumed tail"),
    Part("history", e_hist, s_hist(), quick=10, thorough=120, shards=16, quick_shards=4, shrink=False,
         rule="2-3 successive calls, mostly with the same (order, seed), lengths up to 2^17+40000: longer-then-shorter and shorter-then-longer; non-trivial: same seed and a call >= 2^17 bits"),
    Part("errors", e_err, s_err, quick=200, thorough=4000, shards=2, rule="unsupported orders, bad len values, default len/seed"),
]
