"""C08 - nonlinear FIBER conserves energy up to loss and converges to the NLSE solution."""
import numpy as np
from hypothesis import strategies as st
from numpy.fft import fft, ifft, fftfreq

from ..core import check, lib, Guard
from ..lib import reset, gv, D, optical_signal
from ..runner import Part
from ..sigs import contract

RULE = ("band-limited fields (|f| <= fs/8: Gaussian/NRZ pulse trains, low-pass random fields; 64..1024 samples; peak power 1e-4..0.5 W) x L<=100 km, "
        "alpha<=0.5 dB/km, |beta2|<=25, |beta3|<=0.2, gamma<=5 with gamma*P*L <= 10 rad x phi_max in [5e-4 (thorough) / 5e-3 (quick), 0.1] x 1-pol and 2-pol "
        "(y empty / copy / independent) incl. inputs whose first samples are exactly zero or very weak; oracles: finite + shape (watchdog), per-polarisation "
        "energy law for every phi_max, SPM closed form, an independent fixed-step RK4IP NLSE solver refined by step doubling to 1e-7, 1-pol == x row of "
        "[x, 0]; non-trivial: gamma*P*L >= 0.5 rad and dispersive phase >= 0.5 rad (NLSE), alpha*L >= 1 dB (energy), leading-zero inputs (finite/equivalence)")
ASSUMPTIONS = [
    "'relative error bounded by a constant times phi_max' is decided with the calibrated constant C=100 on inputs band-limited to fs/8 (observed err/phi_max: "
    "typically < 5, up to ~54 when 9 rad of SPM broadens the spectrum past fs/4); rel_err = max|out-ref|/max|ref|; in addition a 4x smaller phi_max must shrink an "
    "error that lies in the regime [1e-3, 0.3] by at least 10% unless it is already below 5*phi_max (below 1e-3 the observed error is no longer proportional to phi_max: it is dominated by the first, power-limited steps)",
    "a case counts for the NLSE comparison only if the reference is sensitive: recomputed with gamma*1.05 and with beta2*1.05 it moves by more than 5x the tolerance (or error level) applied",
    "scalar-NLSE clauses (SPM closed form, convergence, 1-pol equivalence) are asserted for one populated polarisation; with power in both rows only finiteness and "
    "the energy law are asserted (the statement's |in|^2 is ambiguous there)",
    "SPM closed-form tolerance: 1e-9 + 0.6*phi_max*alpha*L[Np] (exact for a closed-form implementation, first order in phi_max for a stepping one)",
    "attenuation law tolerance 3e-5*(alpha*L/4.343)+1e-10 (the code's 4.343 dB/Np constant)",
    "a call that does not return within 60 s (1000x the normal cost) and again within 120 s is reported as 'does not return'",
]


C_CONV = 250          # calibration: observed err/phi_max <= 155 (higher-order-soliton-like compression: 64-sample record, anomalous dispersion, no loss, 9.85 rad; asymptotically ~57)

# --------------------------------------------------------------------------------------------------
# independent reference: RK4 in the interaction picture, fixed step, refined by step doubling

def rk4ip(A0, w, L, alpha_np, b2, b3, gamma, nsteps):
    h = L / nsteps
    Dh = np.exp((-alpha_np / 2 - 0.5j * b2 * w ** 2 - 1j / 6 * b3 * w ** 3) * h / 2)
    A = A0.astype(complex)

    def lin(x):
        return ifft(Dh * fft(x))

    def N(x):
        return 1j * gamma * np.abs(x) ** 2 * x
    for _ in range(nsteps):
        AI = lin(A)
        k1 = lin(h * N(A))
        k2 = h * N(AI + k1 / 2)
        k3 = h * N(AI + k2 / 2)
        k4 = h * N(lin(AI + k3))
        A = lin(AI + k1 / 6 + k2 / 3 + k3 / 3) + k4 / 6
    return A


def reference(A0, w, L, alpha_np, b2, b3, gamma, ppk):
    n = int(max(64, min(4096, 40 * gamma * ppk * L + 20 * abs(b2) * L * np.max(w ** 2) / 2 / 10)))
    prev = rk4ip(A0, w, L, alpha_np, b2, b3, gamma, n)
    for _ in range(6):
        n *= 2
        cur = rk4ip(A0, w, L, alpha_np, b2, b3, gamma, n)
        err = np.max(np.abs(cur - prev)) / max(np.max(np.abs(cur)), 1e-300)
        prev = cur
        if err <= 1e-7:
            return cur, n, err
    return prev, n, err


# --------------------------------------------------------------------------------------------------

@st.composite
def s_case(draw, quick=True):
    N = draw(st.sampled_from([64, 128, 256, 512, 1024, 100, 250, 125, 245, 75]))
    lo = -2.3 if quick else -3.3
    return {"N": N, "kind": draw(st.sampled_from(["gauss-train", "nrz-train", "lowpass-random", "gauss-train"])), "seed": draw(st.integers(0, 2 ** 31 - 1)),
            "sps": draw(st.sampled_from([8, 16, 32, 5, 7] if N in (125, 245, 75) else [8, 16, 32])), "R": draw(st.sampled_from([2.5e9, 10e9, 25e9])), "logp": draw(st.floats(-4, np.log10(0.5))),
            "L": draw(st.floats(1, 100)), "alpha": draw(st.one_of(st.just(0.0), st.floats(0, 0.5), st.floats(0.05, 0.5))),
            "mode": draw(st.sampled_from(["nlse", "nlse", "nlse", "nlse", "spm", "spm", "linear", "any", "b3only", "b2only", "weak", "weak"])),
            "weaklogp": draw(st.floats(-12, -4)),
            "b2": draw(st.floats(-25, 25)), "b3": draw(st.one_of(st.just(0.0), st.just(0.0), st.floats(-0.2, 0.2))), "gamma": draw(st.floats(0.05, 5)),
            "phis": sorted({round(10 ** draw(st.floats(lo, -1)), 6) for _ in range(3)} | {0.1 if quick else 0.05}, reverse=True),
            "layout": draw(st.sampled_from(["1pol", "1pol", "2pol-yempty", "2pol-copy", "2pol-indep"])), "lead": draw(st.sampled_from(["none", "none", "zeros", "weak"])),
            "nl_target": draw(st.floats(0.2, 10)), "gvN": draw(st.booleans()), "many": False}


def slot_rate(c):
    # third-order dispersion only matters for very wide bands: use a 100 GBd grid there (fs up to 3.2 THz)
    return 100e9 if c.get("mode") == "b3only" else c["R"]


def make_field(c):
    rs = np.random.RandomState(c["seed"])
    N, sps = c["N"], c["sps"]
    fs = slot_rate(c) * sps
    nb = max(2, N // sps)
    if c["kind"] == "lowpass-random":
        X = np.zeros(N, dtype=complex)
        k = max(1, N // 8)
        idx = np.r_[0:k, N - k + 1:N]
        X[idx] = rs.standard_normal(idx.size) + 1j * rs.standard_normal(idx.size)
        a = ifft(X)
    else:
        bits = rs.randint(0, 2, nb)
        bits[rs.randint(0, nb)] = 1
        t = np.arange(N)
        a = np.zeros(N)
        if c["kind"] == "gauss-train":
            width = sps * rs.uniform(1.5, 3.0)
            for i, b in enumerate(bits):
                if b:
                    a = a + np.exp(-0.5 * ((t - (i + 0.5) * sps) / width * 2.355) ** 2)
        else:
            a = np.kron(bits, np.ones(sps))[:N].astype(float)
            a = np.pad(a, (0, N - a.size))
        # band-limit to fs/8
        X = fft(a)
        f = fftfreq(N)
        X[np.abs(f) > 1 / 8] = 0
        a = ifft(X) * np.exp(1j * rs.uniform(0, 6))
    logp = c["weaklogp"] if c.get("mode") == "weak" and "weaklogp" in c else c["logp"]       # "weak": received-signal levels, pW .. 0.1 mW
    a = a / max(np.max(np.abs(a)), 1e-300) * np.sqrt(10 ** logp)
    if c["lead"] == "zeros":
        a = a.copy()
        a[: 2 + rs.randint(0, 4)] = 0.0
    elif c["lead"] == "weak":
        a = a.copy()
        a[: 2 + rs.randint(0, 4)] *= 1e-9
    return a, fs, rs


class CountingFFT:
    def __init__(self, real):
        self.real, self.n = real, 0

    def __call__(self, *a, **k):
        self.n += 1
        return self.real(*a, **k)


def fiber(x, L, alpha, b2, b3, gamma, phi):
    proxy = CountingFFT(D.fft)
    old = D.fft
    D.fft = proxy
    try:
        y = lib(D.FIBER, x, L, alpha, b2, b3, gamma, phi)
    finally:
        D.fft = old
    return y, proxy.n


def e_case(c):
    reset()
    if c.get("many"):
        # runs of 5000 and ~20000 split steps (total nonlinear phase 9.9 rad at phi_max = 2e-3 and 5e-4), no loss
        c = dict(c, N=256, phis=[2e-3, 5e-4], nl_target=9.9, mode="nlse", alpha=0.0, lead="none", logp=-0.5, L=10.0 + c["seed"] % 5, b3=0.0,
                 b2=c["b2"] if abs(c["b2"]) >= 5 else 20.0, layout="1pol", kind="gauss-train", R=(5e9, 10e9)[c["seed"] % 2], sps=16)
    a, fs, rs = make_field(c)
    N = a.size
    if c.get("gvN") and N % c["sps"] == 0:
        gv(sps=c["sps"], R=slot_rate(c), N=N // c["sps"])       # a slot count matching the record is configured too
    else:
        gv(sps=c["sps"], R=slot_rate(c))
    ppk = float(np.max(np.abs(a) ** 2))
    L, alpha, b2, b3 = c["L"], c["alpha"], c["b2"], c["b3"]
    gamma = c["gamma"]
    mode = c.get("mode", "any")
    if mode == "b3only":
        L = max(L, 50.0)
    if mode == "spm":
        b2 = b3 = 0.0
    elif mode == "linear":
        gamma = 0.0
    elif mode == "b3only":      # third-order dispersion alone (beta2 exactly 0): needs a wide band to matter
        b2 = 0.0
        b3 = 0.2 if b3 >= 0 else -0.2
        L = max(L, 50.0)
    elif mode == "b2only":
        b3 = 0.0
    if mode != "weak" and (c.get("many") or gamma * ppk * L > 10 or (gamma > 0 and gamma * ppk * L < 0.05)):
        gamma = min(5.0, c["nl_target"] / (ppk * L))          # keep the total nonlinear phase within the quantifier (<= 10 rad) and visible
    phinl = gamma * ppk * L
    layout = c["layout"]
    if layout == "1pol":
        s = a
    elif layout == "2pol-yempty":
        s = np.array([a, np.zeros(N, dtype=complex)])
    elif layout == "2pol-copy":
        s = np.array([a, a]) / np.sqrt(2)
    else:
        b_, _, _ = make_field(dict(c, seed=c["seed"] ^ 0x55AA, lead="none"))
        s = np.array([a, b_]) / np.sqrt(2)
    npol = 1 if layout == "1pol" else 2
    x = optical_signal(s.copy(), n_pol=npol)
    g = Guard()
    g.add_signal("x", x)
    w = 2 * np.pi * fftfreq(N) * fs * 1e-12          # rad/ps
    anp = alpha / 4.343                               # dB -> Np with the textbook constant the code documents (exact: 4.34294...); the 1.3e-5
    #                                                   relative difference is covered by the energy-law tolerance, and must not enter the NLSE reference
    single = layout in ("1pol", "2pol-yempty")
    ein = np.sum(np.abs(s) ** 2, axis=-1)
    outs = {}
    steps = {}
    for phi in c["phis"]:
        y, nfft = fiber(x, L, alpha, b2, b3, gamma, phi)
        contract(y, "O", npol, N, f"FIBER(phi_max={phi})")
        check(bool(np.all(np.isfinite(y.signal))), "fiber-output-not-finite", f"phi_max={phi} layout={layout} lead={c['lead']} gamma={gamma:.3g} b2={b2:.3g}")
        eout = np.sum(np.abs(y.signal) ** 2, axis=-1)
        want = ein * 10 ** (-alpha * L / 10)
        rt = 3e-5 * (alpha * L / 4.343) + 1e-9
        check(np.allclose(eout, want, rtol=rt, atol=1e-300), "fiber-energy-law", f"phi_max={phi}: E_out/E_in = {eout / np.maximum(ein, 1e-300)} vs {10 ** (-alpha * L / 10):.6g} (alpha*L={alpha * L:.2f} dB)")
        outs[phi] = y.signal
        steps[phi] = nfft
    cls = []
    # SPM closed form (no dispersion)
    if b2 == 0 and b3 == 0 and single:
        Leff = L if anp == 0 else -np.expm1(-anp * L) / anp
        for phi, out in outs.items():
            o = out if layout == "1pol" else out[0]
            ref = a * np.exp(-alpha * L / (2 * 4.343)) * np.exp(1j * gamma * np.abs(a) ** 2 * Leff)
            tol = 1e-9 + 0.6 * phi * anp * L + 3e-5 * (alpha * L / 4.343)
            err = np.max(np.abs(o - ref)) / max(np.max(np.abs(ref)), 1e-300)
            check(err <= tol, "spm-closed-form", f"phi_max={phi}: rel err {err:.3e} (tol {tol:.1e}); gamma*P*L={phinl:.2f} rad alpha*L={alpha * L:.2f} dB")
        cls.append("spm")
    # 1-pol == x row of [x, 0]
    if layout == "1pol":
        x2 = optical_signal(np.array([a, np.zeros(N, dtype=complex)]), n_pol=2)
        phi = c["phis"][0]
        y2, nfft2 = fiber(x2, L, alpha, b2, b3, gamma, phi)
        check(bool(np.all(np.isfinite(y2.signal))), "fiber-output-not-finite", "2-pol twin")
        err = np.max(np.abs(y2.signal[0] - outs[phi])) / max(np.max(np.abs(outs[phi])), 1e-300)
        check(err <= 1e-9, "1pol!=xrow-of-2pol", f"phi_max={phi}: rel diff {err:.3e}; split steps {steps[phi]} vs {nfft2} ffts; lead={c['lead']}")
        check(not np.any(y2.signal[1]), "empty-polarisation-populated", "")
        cls.append("equiv")
    # convergence to the scalar NLSE
    disp_phase = abs(b2) * L * float(np.sum(np.abs(fft(a)) ** 2 * w ** 2) / max(np.sum(np.abs(fft(a)) ** 2), 1e-300)) / 2
    if single and gamma > 0 and (b2 != 0 or b3 != 0):
        ref, nref, conv = reference(a, w, L, anp, b2, b3, gamma, ppk)
        if conv <= 1e-6:
            scale = max(np.max(np.abs(ref)), 1e-300)
            r_g = rk4ip(a, w, L, anp, b2, b3, gamma * 1.05, nref // 2)
            r_b = rk4ip(a, w, L, anp, b2 * 1.05, b3 * 1.05, gamma, nref // 2)
            sens = min(np.max(np.abs(r_g - ref)), np.max(np.abs(r_b - ref))) / scale
            # conditioning of the problem itself: how much the NLSE solution moves for a 1e-6 relative change of the input field. It is
            # <= 1 + 2*gamma*P*L (~20) for ordinary propagation and grows like exp(2*gamma*P*L) under modulation instability (anomalous
            # dispersion, strong nonlinearity, no loss), where the constant of "error <= constant * phi_max" is that large for ANY scheme.
            r_p = rk4ip(a * (1 + 1e-6), w, L, anp, b2, b3, gamma, nref // 2)
            kappa = float(np.max(np.abs(r_p - ref)) / (1e-6 * scale))
            cfac = max(1.0, kappa / 25.0)
            if cfac > 1:
                cls.append("ill-conditioned(kappa>25)")
            errs = {}
            for phi, out in outs.items():
                o = out if layout == "1pol" else out[0]
                errs[phi] = float(np.max(np.abs(o - ref)) / scale)
            sensitive = sens > 5 * (C_CONV * min(errs) + 1e-6)
            for phi, e_ in errs.items():
                if sens > 5 * (C_CONV * phi + 1e-6):
                    cls.append("bound-bites")
                if True:
                    check(e_ <= C_CONV * cfac * phi + 1e-6, "nlse-error>C*phi_max", f"phi_max={phi}: rel err {e_:.3e} > {C_CONV * cfac * phi:.3e} (kappa={kappa:.1f}); gamma*P*L={phinl:.2f} disp={disp_phase:.2f} rad steps~{steps[phi]}")
            # convergence as phi_max -> 0: a 4x smaller phi_max must not leave the error where it was (asymptotic regime only)
            ps = sorted(errs, reverse=True)
            for i_, pa in enumerate(ps):
                for pb in ps[i_ + 1:]:
                    # (only where phi_max actually governs the step: the nonlinear phase gamma*P*L_eff spans at least 3 steps of the coarser setting)
                    if pb <= pa / 4 and 1e-3 <= errs[pa] <= 0.3 and gamma * ppk * (L if anp == 0 else -np.expm1(-anp * L) / anp) >= 3 * pa:
                        cls.append("convergence-pair" if sens > 5 * errs[pa] else "convergence-pair-insensitive")
                        # (an error that is already below 5*phi_max at the finer setting is within the O(phi_max) band where a correct
                        #  scheme may fluctuate, e.g. with the length of its last partial step; it is not held to shrink further)
                        check(errs[pb] <= 0.9 * errs[pa] + 1e-7 or errs[pb] <= 5 * pb, "nlse-error-does-not-shrink-with-phi_max",
                              f"phi_max {pa} -> {pb}: rel err {errs[pa]:.3e} -> {errs[pb]:.3e}; gamma*P*L={phinl:.2f} disp={disp_phase:.2f} rad")
            cls.append("nlse-sensitive" if sensitive else "nlse-insensitive")
            cls.append("ratio<=1" if max(e_ / p for p, e_ in errs.items()) <= 1 else "ratio<=5" if max(e_ / p for p, e_ in errs.items()) <= 5 else "ratio<=25")
        else:
            cls.append("reference-not-converged")
    # the solution does not depend on a slot count configured in gv: same call without N
    if c.get("gvN") and N % c["sps"] == 0:
        reset()
        gv(sps=c["sps"], R=slot_rate(c))
        phi = c["phis"][0]
        y3, _ = fiber(x, L, alpha, b2, b3, gamma, phi)
        err = np.max(np.abs(y3.signal - outs[phi])) / max(np.max(np.abs(outs[phi])), 1e-300)
        check(err <= 1e-9, "result-depends-on-gv.N", f"phi_max={phi}: rel diff {err:.3e} between gv(N={N // c['sps']}) and no N; N*sps={N} {'odd' if N % 2 else 'even'}")
        cls.append("gvN-odd" if N % 2 else "gvN-even")
    g.verify()
    g.no_alias([("FIBER.signal", outs[c["phis"][0]])])
    g.release()
    nstep = max(steps.values())          # one forward FFT per split step
    nt = (phinl >= 0.5 and disp_phase >= 0.5 and "nlse-sensitive" in cls) or (alpha * L >= 1) or c["lead"] != "none"
    return {"nontrivial": bool(nt), "classes": cls + [layout, c["lead"], c["kind"], "1-step" if nstep <= 1 else "<=100-steps" if nstep <= 100 else ">100-steps" if nstep <= 10000 else ">10000-steps",
                                                   "lossy" if alpha * L >= 1 else "low-loss", "gamma0" if gamma == 0 else "nl"]}


def e_many(c):
    return e_case(dict(c, many=True))


PARTS = [
    Part("fiber", e_case, s_case(quick=True), quick=70, thorough=0, shards=1, quick_shards=8, shrink=False, timeout=60, rule="phi_max >= 5e-3 (quick tier)"),
    Part("fiber_many", e_many, s_case(quick=True), quick=2, thorough=12, shards=16, quick_shards=4, shrink=False, timeout=120,
         rule="every case: runs of 5000 and ~20000 split steps (phi_max 2e-3 and 5e-4 at a total nonlinear phase of 9.9 rad)"),
    Part("fiber_deep", e_case, s_case(quick=False), quick=0, thorough=1500, shards=16, shrink=False, timeout=120, rule="phi_max down to 5e-4 (thorough tier)"),
]
