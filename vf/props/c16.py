"""C16 - FBG is a passive reflector matching coupled-mode closed forms."""
import io
import contextlib

import numpy as np
from hypothesis import strategies as st
from numpy.fft import fft, ifft, ifftshift, fftfreq, fftshift
from scipy import integrate
from scipy.constants import c as CL

from ..core import check, lib, raises, Guard
from ..lib import reset, gv, D, U, electrical_signal, optical_signal
from ..runner import Part
from ..sigs import contract

RULE = ("designs kL in [0.1,8] x vdneff in 1e-5..1e-3 x chirp F in {0} U [-20,20] x apodisation (4 built-in + random smooth positive callables) x fs 20-400 GS/s "
        "x N in 2^8..2^12 x 1/2-pol inputs x specification routes; oracle: |H|<=1, output == ifft(fft(in)*ifftshift(H)), energy, Bragg-bin reflectivity "
        "tanh^2(kL*int p), uniform closed-form spectrum, route equivalence, ValueError on incomplete specifications; "
        "non-trivial: kL >= 1 and (apodised or chirped or 2-pol)")
ASSUMPTIONS = [
    "accuracy clauses inherit scipy.integrate.solve_ivp's default RK45 tolerance (rtol=1e-3 on a state vector shared by all frequency bins): |H|^2 vs closed "
    "form 1e-2 absolute over the spectrum, 2e-2 relative at the Bragg bin (observed: mostly < 1e-4, up to 5e-3 for the narrow Gaussian profile on a 20 GS/s "
    "grid; the error histogram is reported in coverage.classes), passivity |H| <= 1+5e-3",
    "the landa_D+kL+L route (no vdneff) designs through dneff (self-coupling != 0): a different grating, not part of the equivalence",
]
APOS = ["uniform", "rcos", "gaussian", "parabolic", "callable", "callable", "callable-scalar", "callable-named"]


# user profile functions that happen to carry the names of the built-in profiles (their shapes are different ones)
def gaussian(z):
    return 0.4 + 0.6 * np.exp(-0.5 * (z / 0.22) ** 2)      # (a 0.1-wide bump is integrated by the library's default-accuracy RK45 to ~4e-3 only)


def parabolic(z):
    return 1 - 0.5 * (2 * z) ** 4


def rcos(z):
    return 0.25 + 0.75 * np.cos(np.pi * z) ** 2


def uniform(z):
    return 0.6 + 0.8 * np.abs(z)


NAMED = [gaussian, parabolic, rcos, uniform]


def profile(name, a=0.0, b=0.0):
    if name == "callable-named":
        return NAMED[int(abs(a) * 1000) % 4]
    if name == "uniform":
        return lambda z: 1.0 + 0 * z
    if name == "rcos":
        # the built-in profile is rcos(z, alpha=1, T=2) = (1+cos(2*pi*z))/2 on [-1/2, 1/2] (it vanishes at the grating ends;
        # the docstring's (1+cos(pi*z))/2 is not what the code integrates - the property does not fix the built-in formulas)
        return lambda z: 0.5 * (1 + np.cos(2 * np.pi * z))
    if name == "gaussian":
        return lambda z: np.exp(-4 * np.log(2) * (3 * z) ** 2)
    if name == "parabolic":
        return lambda z: 1 - (2 * z) ** 2
    if name == "callable-scalar":      # a profile written for one position z at a time (math module, builtin max): it cannot take an array
        import math
        return lambda z: max(0.05, 1 + a * math.cos(2 * math.pi * float(z)) + b * float(z) ** 2)
    return lambda z: np.maximum(0.05, 1 + a * np.cos(2 * np.pi * z) + b * z ** 2)


@st.composite
def s_case(draw):
    N = draw(st.sampled_from([256, 512, 1024, 2048, 4096]))
    return {"N": N, "fs": draw(st.floats(20e9, 400e9)), "kL": draw(st.one_of(st.floats(0.1, 8), st.floats(1, 4))), "vd": 10 ** draw(st.floats(-5, -3)),
            "F": draw(st.one_of(st.just(0.0), st.just(0.0), st.floats(-20, 20))), "apo": draw(st.sampled_from(APOS)), "a": draw(st.floats(-0.8, 0.8)),
            "b": draw(st.floats(-3, 3)), "m": draw(st.integers(-(N // 8), N // 8)), "npol": draw(st.sampled_from([1, 2])), "seed": draw(st.integers(0, 2 ** 31 - 1)),
            "filtfilt": draw(st.booleans()), "route": draw(st.sampled_from(["fc_kL", "landa_kL", "fc_L", "landa_L", "fc_N", "landa_N"])), "wl": draw(st.one_of(st.none(), st.floats(1500e-9, 1600e-9)))}


def btol(want):
    """tolerance on the Bragg power reflectivity: 2% relative, plus the accuracy of the library's ODE solution (solve_ivp's default rtol=1e-3 /
    atol=1e-6 bound the error of the reflected AMPLITUDE in absolute terms, ~1.5e-3, which dominates for weak gratings)"""
    return 2e-2 * want + 2 * np.sqrt(want) * 1.5e-3 + 1e-6


def call_fbg(x, **kw):
    buf = io.StringIO()
    with contextlib.redirect_stdout(buf):
        return lib(D.FBG, x, print_params=False, retH=True, **kw)


def e_case(c):
    reset()
    N, fs = c["N"], c["fs"]
    kwg = {"wavelength": c["wl"]} if c["wl"] else {}
    gv(sps=16, fs=fs, **kwg)
    f0 = gv.f0
    rs = np.random.RandomState(c["seed"])
    shape = (N,) if c["npol"] == 1 else (2, N)
    s = rs.standard_normal(shape) + 1j * rs.standard_normal(shape)
    x = optical_signal(s.copy(), n_pol=c["npol"])
    g = Guard()
    g.add_signal("x", x)
    kL, vd, F = c["kL"], c["vd"], c["F"]
    fc = f0 + c["m"] * fs / N
    lD = CL / fc
    apo = c["apo"]
    apod = profile(apo, c["a"], c["b"]) if apo.startswith("callable") else apo
    L = kL * lD / (np.pi * vd)
    base = dict(vdneff=vd, apodization=apod, F=F, filtfilt=c["filtfilt"])
    route = c["route"]
    centre, lform = route.split("_")
    if lform == "N":            # a whole number of periods: the grating length is N*Lambda
        Nper = max(1, int(round(L / (lD / (2 * 1.45)))))
        L = Nper * lD / (2 * 1.45)
        kL = np.pi * vd * L / lD
    cspec = {"fc": dict(fc=fc), "landa": dict(landa_D=lD)}
    lspec = {"kL": dict(kL=kL), "L": dict(L=L), "N": dict(N=Nper) if lform == "N" else None}
    spec = dict(cspec[centre], **lspec[lform])
    y, H = call_fbg(x, **base, **spec)
    contract(y, "O", c["npol"], N, "FBG output")
    check(isinstance(H, np.ndarray) and H.shape == (N,) and np.all(np.isfinite(H)), "H-shape-or-non-finite", f"{getattr(H, 'shape', None)}")
    A = np.abs(H)
    check(float(A.max()) <= 1 + 5e-3, "fbg-not-passive", f"max|H| = {A.max():.6f} (kL={kL:.2f} F={F:.2f} apo={apo})")
    ref = ifft(fft(s, axis=-1) * ifftshift(H), axis=-1)
    check(np.max(np.abs(y.signal - ref)) <= 1e-9 * max(1.0, float(np.max(np.abs(ref)))), "output!=input-filtered-by-H", f"max err {np.max(np.abs(y.signal - ref)):.2e}")
    ein, eout = np.sum(np.abs(s) ** 2, axis=-1), np.sum(np.abs(y.signal) ** 2, axis=-1)
    check(bool(np.all(eout <= ein * (1 + 1e-2))), "fbg-output-energy>input", f"{eout} vs {ein}")
    # equivalent specifications of the same grating give the same response
    # the other centre form with another length form
    other_c = "landa" if centre == "fc" else "fc"
    other_l = {"kL": "L", "L": "kL", "N": "L"}[lform]
    alt = dict(cspec[other_c], **lspec[other_l])
    _, H2 = call_fbg(x, **base, **alt)
    check(np.max(np.abs(np.abs(H2) - A)) <= 1e-6, "equivalent-specifications-differ", f"{route} vs {sorted(alt)}: max | |H2|-|H| | = {np.max(np.abs(np.abs(H2) - A)):.2e}")
    check(np.max(np.abs(H2 - H)) <= 1e-6 or not c["filtfilt"] or True, "equivalent-specifications-differ", "")
    # closed forms for unchirped gratings
    ib = N // 2 + c["m"]
    errclass = []
    if F == 0:
        p = profile(apo, c["a"], c["b"])
        integ, _ = integrate.quad(p, -0.5, 0.5, epsabs=1e-12, limit=200)
        want = np.tanh(kL * integ) ** 2
        got = A[ib] ** 2
        errclass.append("bragg-err<1e-4" if abs(got - want) <= 1e-4 * want else "bragg-err<2e-3" if abs(got - want) <= 2e-3 * want else "bragg-err<2e-2")
        check(abs(got - want) <= btol(want), "bragg-reflectivity!=tanh^2(kL*int p)", f"apo={apo} kL={kL:.3f}: |H|^2 = {got:.6f} vs {want:.6f} at bin {ib}")
        if apo == "uniform":
            f = fftshift(fftfreq(N)) * fs
            lam = CL / (f + f0)
            d = 2 * np.pi * 1.45 * (1 / lam - 1 / lD) * L
            k = np.pi * vd * L / lam
            gam = np.sqrt((k ** 2 - d ** 2).astype(complex))
            with np.errstate(over="ignore", invalid="ignore"):
                refl = np.where(np.abs(gam) < 1e-9, (k ** 2) / (1 + k ** 2), (np.sinh(gam) ** 2 / (np.cosh(gam) ** 2 - d ** 2 / k ** 2)).real)
            ok = np.isfinite(refl)
            check(float(np.max(np.abs(A[ok] ** 2 - refl[ok]))) <= 1e-2, "uniform-spectrum!=closed-form", f"kL={kL:.3f} vd={vd:.2e} fs={fs:.3e}: max err {np.max(np.abs(A[ok] ** 2 - refl[ok])):.2e}")
    # a DIFFERENT profile function with the very same design numbers, right after the first one was dropped (it may well be allocated
    # at the address the first one occupied): the response is that of the profile passed now
    if F == 0 and apo.startswith("callable") and apo != "callable-named":
        old_id = id(apod)
        base.pop("apodization")
        del apod, p
        import gc
        gc.collect()            # (the solver keeps the profile in a reference cycle until the next collection)
        a2, b2 = (-c["a"] if abs(c["a"]) > 0.1 else 0.7), -c["b"] / 2
        spare = []
        for _ in range(2000):              # keep allocating profile functions until one lands on the freed address (usually within a few hundred)
            p2 = profile(apo, a2, b2)
            if id(p2) == old_id:
                break
            spare.append(p2)
        errclass.append("second-profile-at-same-address" if id(p2) == old_id else "second-profile-elsewhere")
        _, H3 = call_fbg(x, apodization=p2, **base, **spec)
        integ2, _ = integrate.quad(p2, -0.5, 0.5, epsabs=1e-12, limit=200)
        want2 = np.tanh(kL * integ2) ** 2
        check(abs(np.abs(H3[ib]) ** 2 - want2) <= btol(want2), "bragg-reflectivity!=tanh^2(kL*int p)",
              f"second callable profile with the same design numbers: |H|^2 = {np.abs(H3[ib]) ** 2:.6f} vs {want2:.6f} (first profile gave {A[ib] ** 2:.6f})")
        base["apodization"] = apod = profile(apo, c["a"], c["b"])
        # ONE profile object whose parameters are changed between two calls (a tunable apodisation swept in a loop): each response is that of the
        # profile as it evaluates at the time of the call
        if apo == "callable":
            class Tunable:
                def __init__(self, a_, b_):
                    self.a_, self.b_ = a_, b_

                def __call__(self, z):
                    return np.maximum(0.05, 1 + self.a_ * np.cos(2 * np.pi * z) + self.b_ * z ** 2)
            tun = Tunable(c["a"], c["b"])
            saved = base.pop("apodization")
            for a_t, b_t in ((c["a"], c["b"]), (a2, b2)):
                tun.a_, tun.b_ = a_t, b_t
                _, Ht = call_fbg(x, apodization=tun, **base, **spec)
                integ_t, _ = integrate.quad(tun, -0.5, 0.5, epsabs=1e-12, limit=200)
                want_t = np.tanh(kL * integ_t) ** 2
                check(abs(np.abs(Ht[ib]) ** 2 - want_t) <= btol(want_t), "bragg-reflectivity!=tanh^2(kL*int p)",
                      f"tunable profile object set to a={a_t:.3f} b={b_t:.3f}: |H|^2 = {np.abs(Ht[ib]) ** 2:.6f} vs {want_t:.6f}")
            base["apodization"] = saved
            errclass.append("tunable-profile-object")
    # the same design on another grid, configured later in the same process: the response is computed for the grid now in force
    if F == 0 and c["m"] == 0:
        fs2 = fs * (0.5 if fs > 60e9 else 2.0)
        gv(sps=16, fs=fs2, **kwg)
        _, Hb = call_fbg(x, **base, **spec)
        check(float(np.max(np.abs(Hb))) <= 1 + 5e-3, "fbg-not-passive", f"after fs {fs:.4g} -> {fs2:.4g}")
        p_ = profile(apo, c["a"], c["b"])
        integ_, _ = integrate.quad(p_, -0.5, 0.5, epsabs=1e-12, limit=200)
        want_ = np.tanh(kL * integ_) ** 2
        check(abs(np.abs(Hb[N // 2]) ** 2 - want_) <= btol(want_), "bragg-reflectivity!=tanh^2(kL*int p)", f"after fs {fs:.4g} -> {fs2:.4g}: {np.abs(Hb[N // 2]) ** 2:.6f} vs {want_:.6f}")
        if apo == "uniform":
            f_ = fftshift(fftfreq(N)) * fs2
            lam_ = CL / (f_ + f0)
            d_ = 2 * np.pi * 1.45 * (1 / lam_ - 1 / lD) * L
            k_ = np.pi * vd * L / lam_
            gam_ = np.sqrt((k_ ** 2 - d_ ** 2).astype(complex))
            with np.errstate(over="ignore", invalid="ignore"):
                refl_ = np.where(np.abs(gam_) < 1e-9, (k_ ** 2) / (1 + k_ ** 2), (np.sinh(gam_) ** 2 / (np.cosh(gam_) ** 2 - d_ ** 2 / k_ ** 2)).real)
            ok_ = np.isfinite(refl_)
            check(float(np.max(np.abs(np.abs(Hb[ok_]) ** 2 - refl_[ok_]))) <= 1e-2, "uniform-spectrum!=closed-form", f"after fs {fs:.4g} -> {fs2:.4g}")
        gv(sps=16, fs=fs, **kwg)
    g.verify()
    g.no_alias([("FBG.signal", y.signal)])
    g.release()
    nt = kL >= 1 and (apo != "uniform" or F != 0 or c["npol"] == 2)
    return {"nontrivial": bool(nt), "classes": [apo, "chirped" if F else "unchirped", f"pol{c['npol']}", route, f"N{N}", "kL>=1" if kL >= 1 else "kL<1"] + errclass}



# --------------------------------------------------------------------------------------------------
# band edge exactly on a simulated frequency (detuning == coupling coefficient to the last bit): a removable singularity of the closed forms

@st.composite
def s_edge(draw):
    return {"N": draw(st.sampled_from([256, 512, 1024])), "fs": draw(st.sampled_from([50e9, 100e9, 160e9, 200e9])), "L": draw(st.floats(2e-3, 8e-3)),
            "bin": draw(st.integers(12, 120)), "side": draw(st.sampled_from([1, -1])), "npol": draw(st.sampled_from([1, 2])), "seed": draw(st.integers(0, 2 ** 31 - 1))}


def e_edge(c):
    reset()
    N, fs, L = c["N"], c["fs"], c["L"]
    gv(sps=16, fs=fs)
    f0 = gv.f0
    rs = np.random.RandomState(c["seed"])
    shape = (N,) if c["npol"] == 1 else (2, N)
    x = optical_signal(rs.standard_normal(shape) + 1j * rs.standard_normal(shape), n_pol=c["npol"])
    lam = 2 * np.pi * CL / (2 * np.pi * fftshift(fftfreq(N)) * fs + 2 * np.pi * f0)      # simulated wavelengths, as documented for the response grid
    lD = CL / f0
    hit, i, v = False, None, None
    for b in range(c["bin"], min(c["bin"] + 90, N // 2 - 2)):        # scan bins until the coincidence is exact in floating point
        i_ = N // 2 + c["side"] * b
        delta_i = 2 * np.pi * 1.45 * (1 / lam[i_] - 1 / lD) * L
        v_ = abs(2 * 1.45 * (1 - lam[i_] / lD))
        for _ in range(64):
            k_i = np.pi * v_ / lam[i_] * L
            if k_i == abs(delta_i):
                hit = True
                break
            v_ = float(np.nextafter(v_, np.inf if k_i < abs(delta_i) else -np.inf))
        if i is None or hit:
            i, v = i_, v_
        if hit:
            break
    kL = np.pi * v * L / lD
    if not (1e-5 <= v <= 1e-3 and 0.1 <= kL <= 8):
        return {"nontrivial": False, "classes": ["design-outside-domain"]}
    y, H = call_fbg(x, fc=f0, vdneff=v, L=L)
    check(isinstance(H, np.ndarray) and H.shape == (N,) and bool(np.all(np.isfinite(H))), "H-shape-or-non-finite", f"band edge on bin {i}: vdneff={v!r} kL={kL:.4f}")
    check(bool(np.all(np.isfinite(y.signal))), "output-non-finite", f"band edge on bin {i}")
    A = np.abs(H)
    check(float(A.max()) <= 1 + 5e-3, "fbg-not-passive", f"max|H| = {A.max():.6f}")
    k_i = np.pi * v / lam[i] * L
    want = k_i ** 2 / (1 + k_i ** 2)             # limit of the uniform-grating reflectivity at the band edge
    check(abs(A[i] ** 2 - want) <= 1e-2, "uniform-spectrum!=closed-form", f"band-edge bin {i}: |H|^2 = {A[i] ** 2:.6f} vs {want:.6f}")
    return {"nontrivial": hit, "classes": ["exact-coincidence" if hit else "within-ulps", f"N{N}", "upper-edge" if c["side"] > 0 else "lower-edge"]}


s_err = st.fixed_dictionaries({"what": st.sampled_from(["fc-alone", "fc+vd", "fc+dneff", "landa-alone", "landa+vd", "landa+kL", "nothing", "only-kL", "type"]),
                               "N": st.sampled_from([256, 512])})


def e_err(c):
    reset()
    gv(sps=16, fs=100e9)
    x = optical_signal(np.ones(c["N"], dtype=complex))
    w = c["what"]
    kw = {"fc-alone": dict(fc=gv.f0), "fc+vd": dict(fc=gv.f0, vdneff=1e-4), "fc+dneff": dict(fc=gv.f0, dneff=1e-4), "landa-alone": dict(landa_D=1550e-9),
          "landa+vd": dict(landa_D=1550e-9, vdneff=1e-4), "landa+kL": dict(landa_D=1550e-9, kL=2.0), "nothing": {}, "only-kL": dict(kL=2.0, vdneff=1e-4)}
    if w == "type":
        for bad in (electrical_signal(np.ones(256)), np.ones(256, dtype=complex)):
            raises(TypeError, D.FBG, bad, fc=gv.f0, vdneff=1e-4, kL=2.0, print_params=False, tag="fbg-non-optical-accepted")
    else:
        raises(ValueError, D.FBG, x, print_params=False, tag="incomplete-specification-accepted", **kw[w])
    return {"nontrivial": True, "classes": [w]}


PARTS = [
    Part("designs", e_case, s_case(), quick=160, thorough=3600, shards=16, quick_shards=4, shrink=False, rule="see RULE"),
    Part("band_edge", e_edge, s_edge(), quick=5, thorough=60, shards=16, quick_shards=4, shrink=False,
         rule="uniform unchirped gratings whose band edge (detuning == coupling coefficient, bit for bit) falls on a simulated frequency: finite, passive, limit value"),
    Part("errors", e_err, s_err, quick=30, thorough=600, shards=1, rule="incomplete specifications / non-optical input"),
]
