"""C03 - a noise-free link built from the library's blocks returns the transmitted bits."""
import numpy as np
from hypothesis import strategies as st

from ..core import check, lib
from ..lib import reset, gv, D, OOK, PPM, binary_sequence, electrical_signal, optical_signal
from ..runner import Part

RULE = ("bit patterns containing both symbols (random, PRBS7/9/11, long runs, alternating, single 1 / single 0) x sps 4..64 (odd included) x slot rates x "
        "NRZ/Gaussian pulses x MZM Vpi/loss/ER>=10 dB x launch power x 1/2-pol carrier and pol setting x PD r/R_load/BW in [0.7R, min(2R,0.45fs)] x optional "
        "DM or linear FIBER with |beta2 L| <= 1% of the squared slot period; all noise off; oracle: exact equality of the decided bits with the transmitted "
        "ones (manual mid-level decision, ook.DSP, ppm.DSP soft/hard) and BER counter values; non-trivial: >=3 transitions and one of {odd sps, 2-pol, "
        "dispersive element, gaussian shape, ER<15 dB}")
ASSUMPTIONS = [
    "'all noise off' = PD(include_noise='ase-only', i_dark=0) or ('thermal-only', T=0, i_dark=0) on a noise-free field (PD has no 'none' selection)",
    "PD bandwidth capped at 0.45*fs (the filters' cutoff domain, C11)",
    "hard-decision PPM with estimated threshold is asserted for >= 16 symbols and >= 64 slots (eye statistics need ON slots), ook.DSP for >= 32 slots of "
    "random/PRBS data with both symbols well represented",
]


def pattern(kind, n, seed, p1):
    rs = np.random.RandomState(seed)
    if kind == "random":
        b = (rs.uniform(size=n) < p1).astype(int)
    elif kind.startswith("prbs"):
        order = int(kind[4:])
        b = np.asarray(D.PRBS(order, len=n, seed=int(rs.randint(1, 2 ** order))).data, dtype=int)
    elif kind == "runs":
        b = np.repeat(rs.randint(0, 2, n), rs.randint(1, 9, n))[:n]
    elif kind == "alt":
        b = (np.arange(n) + rs.randint(0, 2)) % 2
    elif kind == "single1":
        b = np.zeros(n, dtype=int)
        b[rs.randint(0, n)] = 1
    else:
        b = np.ones(n, dtype=int)
        b[rs.randint(0, n)] = 0
    b = np.asarray(b, dtype=int)
    if b.min() == b.max():
        b[rs.randint(0, n)] ^= 1
    return b


@st.composite
def s_link(draw, min_slots=2, max_slots=200, kinds=("random", "random", "prbs7", "prbs9", "prbs11", "runs", "alt", "single1", "single0")):
    sps = draw(st.one_of(st.integers(4, 64), st.sampled_from([4, 5, 7, 8, 9, 15, 16, 17, 32, 33, 64])))
    nmin = max(min_slots, 17 // sps + 1)
    elem = draw(st.sampled_from(["none", "none", "dm", "fiber"]))
    return {"kind": draw(st.sampled_from(kinds)), "n": draw(st.integers(nmin, max_slots)), "seed": draw(st.integers(0, 2 ** 31 - 1)), "p1": draw(st.floats(0.3, 0.7)),
            "sps": sps, "R": draw(st.sampled_from([1e9, 2.5e9, 10e9, 25e9, 40e9])), "shape": draw(st.sampled_from(["nrz", "nrz", "gaussian"])),
            "Vpi": draw(st.floats(1, 10)), "loss": draw(st.floats(0, 6)), "ER": draw(st.floats(10, 40)), "p_dbm": draw(st.floats(-20, 10)),
            "npol": draw(st.sampled_from([1, 2])), "pol": draw(st.sampled_from(["x", "y"])), "both_rows": draw(st.booleans()),
            "r": draw(st.floats(0.1, 1.0)), "R_load": draw(st.floats(10, 1000)), "bw": draw(st.floats(0, 1)), "elem": elem,
            "disp": draw(st.floats(-1, 1)), "L": draw(st.floats(1, 100)), "alpha": draw(st.floats(0, 0.3)),
            "pdmode": draw(st.sampled_from(["ase-only", "thermal-only"])), "drive_bias_in_dac": draw(st.booleans()),
            "gvN": draw(st.sampled_from([None, None, "match", "other"])), "drive": draw(st.sampled_from(["unipolar", "negative", "pushpull"])),
            "chirp": 0.0}      # (chirped Gaussian pulses were tried as an extension of the stated domain and withdrawn: DESIGN 9.3 item 23)      # slot count configured in gv: none / that of the record / another one


def run_link(c, slots, carrier=None, pol=None, keep=None, chirp_ok=False):
    """slots: 0/1 array of transmitted slot values; returns the PD output (electrical_signal).
    `carrier`: re-use this CW carrier object (a second transmission from the same laser); `keep`: dict receiving the carrier used."""
    sps, R = c["sps"], c["R"]
    if c.get("gvN"):
        gv(sps=sps, R=R, N=len(slots) if c["gvN"] == "match" else len(slots) // 2 + 3)
    else:
        gv(sps=sps, R=R)
    fs = R * sps
    Vpi = c["Vpi"]
    kw = {}
    drive = c.get("drive") or ("negative" if c["drive_bias_in_dac"] else "unipolar")
    # (chirped Gaussian pulses only for the sample-and-threshold receiver; the eye-based routines are claimed for the plain shapes)
    dkw = {"c": c["chirp"]} if chirp_ok and c["shape"] == "gaussian" and c.get("chirp") else {}
    if drive == "negative":
        v = lib(D.DAC, slots, -Vpi, Vpi, c["shape"], **dkw)      # bit 1 -> 0 V (maximum transmission), bit 0 -> -Vpi
        mz_bias = 0.0
    elif drive == "pushpull":
        v = lib(D.DAC, slots, -Vpi / 2, Vpi, c["shape"], **dkw)  # bit 1 -> +Vpi/2, bit 0 -> -Vpi/2 around a bias of -Vpi/2
        mz_bias = -Vpi / 2
    else:
        v = lib(D.DAC, slots, 0.0, Vpi, c["shape"], **dkw)
        mz_bias = -Vpi
    N = len(v)
    t = np.arange(N) / fs
    pol = pol or c["pol"]
    cw = carrier if carrier is not None else lib(D.LASER, t, c["p_dbm"])
    if carrier is None and c["npol"] == 2:
        z = np.zeros(N, dtype=complex)
        if c["both_rows"]:
            rows = np.array([cw.signal, cw.signal])
        else:
            rows = np.array([cw.signal, z]) if c["pol"] == "x" else np.array([z, cw.signal])
        cw = optical_signal(rows, n_pol=2)
    if keep is not None:
        keep["cw"] = cw
    m = lib(D.MZM, cw, v, mz_bias, Vpi, c["loss"], c["ER"], pol)
    Tslot_ps = 1e12 / R
    b2L = c["disp"] * 0.01 * Tslot_ps ** 2           # ps^2
    if c["elem"] == "dm":
        m = lib(D.DM, m, b2L)
    elif c["elem"] == "fiber":
        m = lib(D.FIBER, m, c["L"], c["alpha"], b2L / c["L"], 0.0, 0.0)
    lo, hi = 0.7 * R, min(2 * R, 0.45 * fs)
    BW = lo + c["bw"] * (hi - lo)
    if c["pdmode"] == "ase-only":
        y = lib(D.PD, m, BW, c["r"], 300.0, c["R_load"], ["ase-only", "ASE-only", "Ase-Only", "ASE-ONLY"][c["seed"] % 4], 0.0)   # documented: any letter case
    else:
        y = lib(D.PD, m, BW, c["r"], 0, c["R_load"], "thermal-only", 0.0)
    check(type(y) is electrical_signal and len(y) == N, "pd-output-shape", "")
    check(y.noise is None or not np.any(y.noise), "noise-present-with-all-sources-off", f"max |noise| = {np.max(np.abs(y.noise)) if y.noise is not None else 0:.3e}")
    return y


def eye_data(e, thr):
    """how degenerate are the eye statistics the decision was based on (for the classification of known finding F03a)"""
    vals = [getattr(e, k, None) for k in ("mu0", "mu1", "s0", "s1")] + [thr]
    bad = any(v is None or not np.isfinite(v) for v in vals)
    if bad:
        return {"eye_nan": True, "s_min_rel": None, "thr_rel": None}
    d01 = float(e.mu1 - e.mu0)
    if not d01 > 0:
        return {"eye_nan": True, "s_min_rel": None, "thr_rel": None}
    return {"eye_nan": False, "s_min_rel": float(min(e.s0, e.s1) / d01), "thr_rel": float((thr - e.mu0) / d01),
            "s_ratio": float(min(e.s0, e.s1) / max(e.s0, e.s1)) if max(e.s0, e.s1) > 0 else 0.0}


def transitions(b):
    return int(np.sum(np.diff(b) != 0))


def e_manual(c):
    reset()
    bits = pattern(c["kind"], c["n"], c["seed"], c["p1"])
    keep = {}
    y = run_link(c, bits, keep=keep, chirp_ok=True)
    s = lib(D.SAMPLER, y, c["sps"] // 2)
    v = (s.signal + (s.noise if s.noise is not None else 0)).real
    thr = (v.max() + v.min()) / 2
    rx = (v > thr).astype(int)
    reuse = "-"
    if c["npol"] == 2 and c["both_rows"]:
        # a second transmission from the SAME carrier object on the other polarisation (the first one must not have consumed it)
        bits2 = bits[::-1].copy()
        y2 = run_link(c, bits2, carrier=keep["cw"], pol=("y" if c["pol"] == "x" else "x"), chirp_ok=True)
        v2 = lib(D.SAMPLER, y2, c["sps"] // 2).signal.real
        if v2.max() > v2.min():
            rx2_ = (v2 > (v2.max() + v2.min()) / 2).astype(int)
        else:
            rx2_ = np.full(len(bits2), -1)
        check(np.array_equal(rx2_, bits2), "second-transmission-from-the-same-carrier-fails", f"{int(np.sum(rx2_ != bits2))} errors of {len(bits2)} on pol "
              f"{'y' if c['pol'] == 'x' else 'x'} after a transmission on pol {c['pol']} (levels {v2.min():.3g}..{v2.max():.3g} V)")
        reuse = "carrier-reused"
    margin = float(np.min(np.abs(v - thr)) / ((v.max() - v.min()) / 2))
    check(np.array_equal(rx, bits), "decided-bits!=transmitted", f"{int(np.sum(rx != bits))} errors of {len(bits)} (first at {int(np.argmax(rx != bits))}); sps={c['sps']} "
          f"shape={c['shape']} elem={c['elem']} bw={c['bw']:.2f} ER={c['ER']:.1f}")
    # the library's comparator agrees on this non-negative signal
    rx2 = lib(lambda: s > float(thr))
    check(np.array_equal(rx2.data, bits), "library-comparator-disagrees", "")
    check(float(lib(OOK.BER_analizer, "counter", Tx=binary_sequence(bits), Rx=rx2)) == 0.0, "ber-counter!=0", "")
    nt = transitions(bits) >= 3 and (c["sps"] % 2 == 1 or c["npol"] == 2 or c["elem"] != "none" or c["shape"] == "gaussian" or c["ER"] < 15)
    return {"nontrivial": bool(nt), "classes": [c["kind"], c["shape"], c["elem"], f"pol{c['npol']}{c['pol']}", "odd-sps" if c["sps"] % 2 else "even-sps",
                                                 "margin<0.5" if margin < 0.5 else "margin>=0.5", c["pdmode"], reuse]}


def e_ook(c):
    reset()
    np.random.seed(c["seed"] % 2 ** 32)
    bits = pattern(c["kind"], c["n"], c["seed"], c["p1"])
    y = run_link(c, bits)
    np.random.seed((c["seed"] + 1) % 2 ** 32)
    out = lib(OOK.DSP, y)
    check(isinstance(out, tuple) and len(out) == 3, "ook.DSP-return-shape", "")
    rx, eye_obj, rth = out
    check(type(rx) is binary_sequence and len(rx) == len(bits), "ook.DSP-output-length", f"{len(rx)} vs {len(bits)}")
    dat = eye_data(eye_obj, rth)
    check(np.array_equal(rx.data, bits), "ook.DSP!=transmitted", f"{int(np.sum(rx.data != bits))} errors of {len(bits)}; sps={c['sps']} shape={c['shape']} elem={c['elem']} "
          f"bw={c['bw']:.2f} ER={c['ER']:.1f} R_load={c['R_load']:.0f} p={c['p_dbm']:.1f} dBm thr={rth} (eye: mu0={eye_obj.mu0:.4g} mu1={eye_obj.mu1:.4g} "
          f"s0={eye_obj.s0:.3g} s1={eye_obj.s1:.3g})", data=dat)
    check(float(lib(OOK.BER_analizer, "counter", Tx=binary_sequence(bits), Rx=rx)) == 0.0, "ber-counter!=0", "")
    return {"nontrivial": True, "classes": [c["kind"], c["shape"], c["elem"], f"pol{c['npol']}", "odd-sps" if c["sps"] % 2 else "even-sps"]}


@st.composite
def s_ppm(draw):
    base = draw(s_link(kinds=("random", "random", "prbs7", "prbs9", "runs")))
    base["M"] = draw(st.sampled_from([2, 4, 8, 16]))
    base["nsym"] = draw(st.integers(1, 48))
    base["decision"] = draw(st.sampled_from(["soft", "hard"]))
    base["shape"] = draw(st.sampled_from(["nrz", "nrz", "gaussian"]))
    return base


def e_ppm(c):
    reset()
    M = c["M"]
    k = M.bit_length() - 1
    nsym = c["nsym"]
    if c["decision"] == "hard":
        nsym = max(nsym, 16, -(-64 // M))
    while nsym * M * c["sps"] <= 16:
        nsym += 1
    bits = pattern("random" if c["kind"] in ("runs",) else c["kind"], nsym * k, c["seed"], c["p1"])
    slots = lib(PPM.PPM_ENCODER, bits, M)
    y = run_link(c, np.asarray(slots.data, dtype=int))
    dat = None
    if c["decision"] == "hard":
        # the eye statistics the hard decision is based on (same seed, same call as inside ppm.DSP) - only used to classify a failure
        try:
            np.random.seed((c["seed"] + 1) % 2 ** 32)
            e_ = D.GET_EYE(y, nslots=8192)
            thr_ = e_.threshold if e_.threshold is not None else PPM.THRESHOLD_EST(e_, M)
            dat = eye_data(e_, thr_)
        except Exception:  # noqa: BLE001
            dat = {"eye_nan": True, "s_min_rel": None, "thr_rel": None}
    np.random.seed((c["seed"] + 1) % 2 ** 32)
    rx = lib(PPM.DSP, y, M, c["decision"])
    check(type(rx) is binary_sequence, "ppm.DSP-output-type", "")
    check(len(rx) == len(bits) and np.array_equal(rx.data, bits), "ppm.DSP!=transmitted", data=dat, msg=
          (f"{c['decision']} M={M} symbols={nsym}: {int(np.sum(rx.data[:len(bits)] != bits[:len(rx)])) if len(rx) else '?'} errors; sps={c['sps']} shape={c['shape']} "
           f"elem={c['elem']} bw={c['bw']:.2f} ER={c['ER']:.1f} R_load={c['R_load']:.0f} p={c['p_dbm']:.1f} dBm; eye: {dat}"))
    check(float(lib(PPM.BER_analizer, "counter", Tx=binary_sequence(bits), Rx=rx)) == 0.0, "ber-counter!=0", "")
    return {"nontrivial": True, "classes": [c["decision"], f"M{M}", c["shape"], c["elem"], f"pol{c['npol']}", "odd-sps" if c["sps"] % 2 else "even-sps"]}


s_cnt = st.fixed_dictionaries({"n": st.one_of(st.integers(1, 400), st.integers(1, 400), st.integers(1, 400), st.sampled_from([65535, 65536, 65537, 70000, 131072, 300000])), "seed": st.integers(0, 2 ** 31 - 1), "frac": st.floats(0, 1), "form": st.sampled_from(["bs", "list", "array", "str"])})


def e_cnt(c):
    rs = np.random.RandomState(c["seed"])
    n = c["n"]
    k = int(c["frac"] * n)
    if n > 400:
        # error counts around and beyond 2^8 / 2^16 (a narrow counter wraps there) - long records are boxed as arrays / sequences only
        k = [256, 65535, 65536, 65537, n, n - 1, k, k][c["seed"] % 8]
        k = min(k, n)
        c = dict(c, form=c["form"] if c["form"] in ("bs", "array") else "array")
    tx = rs.randint(0, 2, n)
    rx = tx.copy()
    pos = rs.choice(n, k, replace=False)
    rx[pos] ^= 1
    want = k / n

    def box(v):
        return {"bs": binary_sequence(v), "list": v.tolist(), "array": v.copy(), "str": "".join(map(str, v))}[c["form"]]
    got1 = lib(OOK.BER_analizer, "counter", Tx=box(tx), Rx=box(rx))
    got2 = lib(PPM.BER_analizer, "counter", Tx=box(tx), Rx=box(rx))
    check(float(got1) == want, "ook-ber-counter!=k/n", f"{got1} vs {k}/{n}")
    check(float(got2) == want, "ppm-ber-counter!=k/n", f"{got2} vs {k}/{n}")
    return {"nontrivial": 0 < k < n, "classes": [c["form"], "n>65535" if n > 65535 else "n<=400"]}


def classify(part, case, v):
    """Known finding F03a (one root cause: the eye-based decision routines are applied to a NOISE-FREE waveform, for which the eye estimator's
    Gaussian statistics degenerate). GET_EYE takes the level statistics from a +-5% window of every other slot only; on a noise-free
    waveform (i) the sampled slots may carry no inter-symbol interference, so that a sigma estimate is ~0 and the Gaussian-optimal /
    KDE threshold sits within 10% of the level distance from that level - ISI-affected symbols of the other slots then cross it; or (ii) the
    window may hold no sample of one level at all (low sps, all ON slots of one parity), so that a level comes out NaN and no threshold
    exists. A failure is attributed to F03a only when the eye statistics behind the failing decision are degenerate in exactly this way."""
    if (part == "ook_dsp" and v.tag == "ook.DSP!=transmitted") or (part == "ppm_dsp" and v.tag == "ppm.DSP!=transmitted" and case.get("decision") == "hard"):
        d = v.data
        # degenerate: one sigma estimate is (almost) nothing - below 1 % of the level distance, or below 1/20 of the other level's sigma -
        # and the threshold derived from it hugs that level (within 10 % of the level distance)
        if d and (d.get("eye_nan") or (d.get("s_min_rel") is not None and (d["s_min_rel"] < 0.01 or d.get("s_ratio", 1.0) < 0.05)
                                       and (d["thr_rel"] < 0.1 or d["thr_rel"] > 0.9))):
            return "F03a"
    return None


def finalize(tier, classes, summary=None):
    """The known finding is rare (about 1 case in 3000 of the eye-based parts). If it suddenly explains more than 2% of them, something
    else is wrong (e.g. the eye estimator itself regressed) and that is reported as a violation instead of being absorbed."""
    viol = []
    if summary:
        hits = summary["kf_hits"].get("F03a", 0)
        n = sum(summary["parts"].get(p_, {}).get("evaluations", 0) for p_ in ("ook_dsp", "ppm_dsp"))
        if n >= 50 and hits > max(3, 0.02 * n):
            viol.append({"part": "ook_dsp", "case": {"known_finding_hits": hits, "evaluations": n}, "tag": "known-finding-rate-exploded",
                         "msg": f"{hits} of {n} eye-based decisions failed with degenerate eye statistics (recorded rate of F03a: ~3e-4)"})
    return viol, []


PARTS = [
    Part("manual", e_manual, s_link(), quick=800, thorough=25000, shards=16, quick_shards=2, rule="manual mid-level decision at the slot centre"),
    Part("ook_dsp", e_ook, s_link(min_slots=32, max_slots=160, kinds=("random", "prbs7", "prbs9", "prbs11")), quick=60, thorough=1500, shards=16, quick_shards=6,
         shrink=False, rule="ook.DSP on >= 32 slots of random/PRBS data"),
    Part("ppm_dsp", e_ppm, s_ppm(), quick=120, thorough=3000, shards=16, quick_shards=4, shrink=False, rule="ppm.DSP soft / hard (estimated threshold)"),
    Part("counter", e_cnt, s_cnt, quick=300, thorough=10000, shards=2, rule="k flipped bits of n -> k/n exactly"),
]
