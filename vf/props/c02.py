"""C02 - time/frequency transforms are exact inverses on the sampling-rate FFT grid."""
import os

import numpy as np
from hypothesis import strategies as st
from numpy.fft import fft, ifft, fftfreq, fftshift, ifftshift

from ..core import check, lib, raises, Guard
from ..lib import reset, gv
from ..runner import Part
from ..sigs import s_signal, s_gv, apply_gv, build, contract, LENGTHS

RULE = ("signals of generated length/dtype/layout/noise under generated gv configurations; x('w'|'f'|'t', shift) compared with numpy.fft written out "
        "independently, round trip, Parseval, shift relations, w() against the configured fs (re-checked after re-configuring gv), power(); "
        "non-trivial: odd N>=3 with shift=True, or 2-pol with noise, or non-default gv.fs")
ASSUMPTIONS = ["numpy.fft is the reference DFT", "tolerance 1e-9*max(1,max|ref|) on FFT-based identities (observed <=1e-13)"]


@st.composite
def s_case(draw, force_huge=False):
    big = draw(st.integers(0, 9)) == 0
    huge = force_huge or draw(st.integers(1, 2 ** 30)) % 500 == 7          # (long records also have a part of their own)
    n = draw(st.sampled_from([131072, 100003, 2 ** 17 + 1, 2 ** 18 + 1, 300000, 2 ** 19 + 7] + ([2 ** 21, 2 ** 21 + 1] if force_huge and os.environ.get("VF_TIER") == "thorough" else []))) if huge else \
        draw(st.sampled_from([2048, 4096, 4095, 2047, 8191, 16384, 32768, 20011])) if big else draw(st.one_of(st.sampled_from(LENGTHS), st.integers(1, 300)))
    x = draw(s_signal(n=n, fams=["gauss", "unif", "smallint", "spike", "const", "lead0", "alt", "periodic", "sorted", "sym"]))
    # units: amplitudes over 18 decades; "weakq": an O(1) real waveform with a quadrature component of 1e-12..1e-6
    x["scale"] = draw(st.sampled_from([1.0, 1.0, 1e-3, 1e-9, 1e-12, 1e6]))
    x["weakq"] = draw(st.sampled_from([0.0, 0.0, 1e-12, 1e-9, 1e-7]))
    x["nscale"] = draw(st.sampled_from([1.0, 1.0, 1.0, 1e-7, 1e-10, 1e8]))       # the noise component on its own scale (each component is transformed for itself)
    return {"x": x, "gv": draw(s_gv(noncommensurate=True)), "gv2": draw(s_gv(noncommensurate=True)), "shift": draw(st.booleans()), "dom": draw(st.sampled_from(["w", "f", "t"]))}


def PTOL(n):
    # a mean of n squares: any summation order is allowed, so the comparison allows the worst-case rounding of a plain running sum (n*eps)
    return max(1e-12, 4 * n * 2.3e-16)


def tol(ref):
    # FFT rounding error is relative to the size of the data: no absolute floor (weak signals must round-trip as well as strong ones)
    return 1e-9 * (float(np.max(np.abs(ref))) if np.size(ref) else 0.0) + 1e-300


def eq(a, b, tag, what):
    check(a.shape == b.shape, tag, f"{what}: shape {a.shape} vs {b.shape}")
    d = float(np.max(np.abs(a - b))) if a.size else 0.0
    check(d <= tol(b), tag, f"{what}: max error {d:.3e}")


def e_case(c):
    reset()
    sps, R, fs = apply_gv(c["gv"], c["x"]["sig"]["n"])
    x, m = build(c["x"])
    sc, wq = c["x"].get("scale", 1.0), c["x"].get("weakq", 0.0)
    nsc = c["x"].get("nscale", 1.0) if m.n is not None and m.n.dtype.kind != "i" else 1.0
    if sc != 1.0 or wq or nsc != 1.0:
        rs_ = np.random.RandomState(c["x"]["sig"]["seed"])
        s_ = m.s * sc if m.s.dtype.kind != "i" or sc >= 1 else m.s.astype(float) * sc
        if wq:
            s_ = s_.real.astype(float) + 1j * wq * abs(sc) * rs_.standard_normal(m.s.shape)
        n_ = None if m.n is None else ((m.n * sc if m.n.dtype.kind != "i" or sc >= 1 else m.n.astype(float) * sc) * (1e-3 if wq else 1.0))
        if n_ is not None:
            n_ = n_ * nsc
            rt = np.result_type(s_, n_)
            s_, n_ = s_.astype(rt), n_.astype(rt)
        from ..sigs import CLS, Model
        x = CLS[m.cls](s_.copy(), None if n_ is None else n_.copy())
        m = Model(m.cls, m.npol, s_, n_)
    N = m.N
    g = Guard(protect=not (N >= 2 ** 17 and c["x"]["sig"]["seed"] % 2))      # long records: half of them as ordinary writeable arrays (snapshot comparison only)
    g.add_signal("x", x)
    snap = {k: (v.tobytes() if isinstance(v, np.ndarray) else v) for k, v in gv.__dict__.items()}
    parts = [("signal", m.s)] + ([("noise", m.n)] if m.n is not None else [])
    # forward / inverse against numpy
    for dom in ("w", "f"):
        X = lib(x, dom)
        contract(X, m.cls, m.npol, N, f"x('{dom}')")
        check((X.noise is None) == (m.n is None), "noise-presence", f"x('{dom}')")
        for nm, arr in parts:
            eq(getattr(X, nm), fft(arr, axis=-1), "forward!=fft", f"x('{dom}').{nm}")
    Xw = lib(x, "w")
    xt = lib(x, "t")
    contract(xt, m.cls, m.npol, N, "x('t')")
    for nm, arr in parts:
        eq(getattr(xt, nm), ifft(arr, axis=-1), "inverse!=ifft", f"x('t').{nm}")
    rt = lib(Xw, "t")
    contract(rt, m.cls, m.npol, N, "x('w')('t')")
    for nm, arr in parts:
        eq(getattr(rt, nm), arr.astype(complex), "roundtrip", f"x('w')('t').{nm}")
        # Parseval per polarisation
        Xa = getattr(Xw, nm)
        lhs = np.sum(np.abs(Xa) ** 2, axis=-1)
        rhs = N * np.sum(np.abs(arr) ** 2, axis=-1)
        check(np.allclose(lhs, rhs, rtol=1e-9, atol=1e-300), "parseval", f"{nm}: {lhs} vs {rhs}")
    # shift only reorders
    Xs = lib(x, "w", True)
    contract(Xs, m.cls, m.npol, N, "x('w',shift)")
    for nm, arr in parts:
        eq(ifftshift(getattr(Xs, nm), axes=-1), fft(arr, axis=-1), "shift-forward", f"ifftshift(x('w',True).{nm})")
        eq(getattr(Xs, nm), fftshift(fft(arr, axis=-1), axes=-1), "shift-forward", f"x('w',True).{nm}")
    xs = lib(x, "t", True)
    for nm, arr in parts:
        eq(fftshift(getattr(xs, nm), axes=-1), ifft(arr, axis=-1), "shift-inverse", f"fftshift(x('t',True).{nm})")
        eq(getattr(xs, nm), ifftshift(ifft(arr, axis=-1), axes=-1), "shift-inverse", f"x('t',True).{nm}")
    raises(ValueError, x, "x", tag="bad-domain-accepted")
    raises(ValueError, x, "T", tag="bad-domain-accepted")
    # frequency axis for the configured sampling rate
    w = lib(x.w)
    check(isinstance(w, np.ndarray) and w.shape == (N,), "w-shape", f"{getattr(w, 'shape', None)}")
    ref = 2 * np.pi * fftfreq(N) * fs
    check(np.allclose(w, ref, rtol=1e-12, atol=1e-6 * fs / max(N, 1) * 1e-6), "w!=2pi*fftfreq*fs", f"fs={fs}: {w[:3]} vs {ref[:3]}")
    ws = lib(x.w, True)
    check(np.allclose(ws, fftshift(ref), rtol=1e-12, atol=1e-12 * fs), "w(shift)!=fftshift", "")
    # the caller owns a returned axis (w = x.w(); w *= 1e-12 to work in rad/ps is ordinary use): later calls still give the axis of the statement
    for own in (w, ws):
        if isinstance(own, np.ndarray) and own.flags.writeable:
            own *= 1e-12
            own += 1.0
    w_again, ws_again = lib(x.w), lib(x.w, True)
    check(np.allclose(w_again, ref, rtol=1e-12, atol=1e-6 * fs / max(N, 1) * 1e-6) and np.allclose(ws_again, fftshift(ref), rtol=1e-12, atol=1e-12 * fs),
          "w-follows-edits-of-an-earlier-result", f"fs={fs} N={N}: {np.asarray(w_again)[:3]} vs {ref[:3]}")
    check(lib(x.fs) == fs and lib(x.sps) == sps and abs(lib(x.dt) - 1 / fs) <= 1e-12 / fs, "fs/sps/dt-accessors", f"{x.fs()} {x.sps()} {x.dt()}")
    # power
    tot = m.total
    p = np.asarray(lib(x.power))
    check(np.allclose(p, np.mean(np.abs(tot) ** 2, axis=-1), rtol=PTOL(N), atol=1e-300), "power!=mean|s+n|^2", f"{p}")
    check(np.allclose(lib(x.power, "signal"), np.mean(np.abs(m.s) ** 2, axis=-1), rtol=PTOL(N), atol=1e-300), "power(signal)", "")
    pn = np.asarray(lib(x.power, "noise"))
    check(np.allclose(pn, 0 if m.n is None else np.mean(np.abs(m.n) ** 2, axis=-1), rtol=PTOL(N), atol=1e-300), "power(noise)", f"{pn}")
    check(p.shape == (() if m.npol == 1 else (2,)), "power-shape", f"{p.shape}")
    cur = {k: (v.tobytes() if isinstance(v, np.ndarray) else v) for k, v in gv.__dict__.items()}
    check(cur == snap, "transform-changed-gv", "")
    # re-configure gv: the axis follows the configuration now in force
    sps2, R2, fs2 = apply_gv(c["gv2"])
    w2 = lib(x.w)
    check(np.allclose(w2, 2 * np.pi * fftfreq(N) * fs2, rtol=1e-12, atol=1e-12 * fs2), "w-uses-stale-fs", f"after reconfiguring fs={fs2}")
    g.verify()
    for obj, nm in ((Xw, "x('w')"), (xt, "x('t')"), (Xs, "x('w',True)"), (xs, "x('t',True)")):
        g.no_alias([(nm + ".signal", obj.signal), (nm + ".noise", obj.noise)])
    g.release()
    # the samples of the SAME object edited in place (as the library's own devices do with their outputs): the transforms, the
    # axis and the power follow the content now held (nothing may be remembered from the calls above)
    if N >= 2 and x.signal.dtype.kind in "fc":
        for arr in (x.signal, x.noise):
            if arr is not None:
                arr[..., N // 2] = arr[..., N // 2] * 3 + (1 if arr.dtype.kind != "c" else 1 - 2j) * sc
                arr[..., 0] = 0
        for nm in ("signal",) + (("noise",) if x.noise is not None else ()):
            arr = getattr(x, nm)
            eq(getattr(lib(x, "w"), nm), fft(arr, axis=-1), "transform-of-stale-content", f"x('w').{nm} after x.{nm} was edited in place")
            eq(getattr(lib(x, "t", True), nm), ifftshift(ifft(arr, axis=-1), axes=-1), "transform-of-stale-content", f"x('t',True).{nm} after an in-place edit")
        tot2 = x.signal if x.noise is None else x.signal + x.noise
        check(np.allclose(lib(x.power), np.mean(np.abs(tot2) ** 2, axis=-1), rtol=PTOL(N), atol=1e-300), "power-of-stale-content", "")
    nt = (N >= 3 and N % 2 == 1) or (m.npol == 2 and m.n is not None) or fs != 16e9
    return {"nontrivial": bool(nt), "classes": [c["x"]["cls"] + str(m.npol), "odd" if N % 2 else "even", "N1" if N == 1 else "N2" if N == 2 else "N>2",
                                                 "noise" if m.n is not None else "clean", c["gv"]["form"], "huge" if N > 50000 else "big" if N > 1000 else "small", c["x"]["sig"]["dt"], f"scale{sc:g}", "weakq" if wq else "plain"]}


PARTS = [Part("transforms", e_case, s_case(), quick=1500, thorough=30000, shards=16, quick_shards=2, rule=RULE[-120:]),
         Part("huge", e_case, s_case(force_huge=True), quick=5, thorough=16, shards=16, quick_shards=4, shrink=False,
              rule="every case: 100003 .. 2^19+7 samples (block / switch-over sizes of long-record code paths)")]
